module verif

go 1.24.0
