package simrt

import (
	"time"
	"unsafe"
)

// Discrete-event clock (DESIGN §2.5).  Periodic tickers never fire on their
// own at quiescence; they fire (a) as a seeded scheduling choice while tasks
// run (Options.TickWeight), (b) when the clock passes them on the way to a
// one-shot timer, (c) when the harness calls AdvanceTime.

type timer struct {
	when    int64
	seq     uint64
	period  int64
	ch      chan time.Time
	fn      func()
	sleeper bool
	stopped bool
	fired   bool
}

//go:norace
func (s *Sim) addTimer(t *timer) {
	s.tseq++
	t.seq = s.tseq
	s.timers = append(s.timers, t)
}

// earliest returns the index of the earliest armed timer satisfying the filter
// (oneShot: only non-periodic; periodic: only periodic; both false: any).
//
//go:norace
func (s *Sim) earliest(oneShot, periodic bool) int {
	best := -1
	for i, t := range s.timers {
		if t.stopped || (t.fired && t.period == 0) {
			continue
		}
		if oneShot && t.period != 0 {
			continue
		}
		if periodic && t.period == 0 {
			continue
		}
		if best < 0 || t.when < s.timers[best].when || (t.when == s.timers[best].when && t.seq < s.timers[best].seq) {
			best = i
		}
	}
	return best
}

//go:norace
func (s *Sim) gcTimers() {
	j := 0
	for _, t := range s.timers {
		if t.stopped || (t.fired && t.period == 0) {
			continue
		}
		s.timers[j] = t
		j++
	}
	for k := j; k < len(s.timers); k++ {
		s.timers[k] = nil
	}
	s.timers = s.timers[:j]
}

// fire one timer at its due time.
//
//go:norace
func (s *Sim) fire(t *timer) {
	if t.when > s.now {
		s.now = t.when
	}
	if t.period != 0 {
		s.Ticks++
		for t.when <= s.now {
			t.when += t.period
		}
		s.fireQ = append(s.fireQ, t)
		if len(s.fireQ) > 100000 {
			panic("simrt: fireQ overflow")
		}
		return
	}
	t.fired = true
	if t.sleeper {
		return // the sleeping task's predicate sees the clock
	}
	s.fireQ = append(s.fireQ, t)
}

// advanceTo fires every timer due up to and including target, in order.
//
//go:norace
func (s *Sim) advanceTo(target int64) {
	for {
		i := s.earliest(false, false)
		if i < 0 || s.timers[i].when > target {
			break
		}
		s.fire(s.timers[i])
	}
	if target > s.now {
		s.now = target
	}
	s.gcTimers()
}

//go:norace
func (s *Sim) advanceToOneShot() bool {
	i := s.earliest(true, false)
	if i < 0 {
		return false
	}
	s.advanceTo(s.timers[i].when)
	return true
}

//go:norace
func (s *Sim) hasTicker() bool { return s.earliest(false, true) >= 0 }

//go:norace
func (s *Sim) fireNextTicker() {
	i := s.earliest(false, true)
	if i < 0 {
		return
	}
	s.advanceTo(s.timers[i].when)
}

// clockLoop is the body of the clock task: it performs the channel sends and
// AfterFunc calls of fired timers, so that the only happens-before edge a tick
// creates is clock -> receiver (as with the runtime's timer goroutine).
//
//go:norace
func clockLoop() {
	s := S
	for spin := 0; ; spin++ {
		if spin > 10000000 {
			panic("simrt: clock is spinning")
		}
		for len(s.fireQ) > 0 {
			t := s.fireQ[0]
			s.fireQ = s.fireQ[1:]
			if t.stopped {
				continue
			}
			if t.fn != nil {
				f := t.fn
				Go("time.AfterFunc", f)
				continue
			}
			select {
			case t.ch <- epoch.Add(time.Duration(s.now)):
			default: // slot full: the tick is dropped, as in Go
			}
		}
		s.block(BKOther, 0, clockWaiter{})
	}
}

// AdvanceTime moves the simulated clock forward by d, firing every timer on
// the way and letting the system settle after each (harness, root task only).
//
//go:norace
func AdvanceTime(d time.Duration) {
	s := S
	if s == nil || s.dead {
		return
	}
	target := s.now + int64(d)
	for {
		WaitQuiescent()
		i := s.earliest(false, false)
		if i < 0 || s.timers[i].when > target {
			break
		}
		s.fire(s.timers[i])
		s.gcTimers()
	}
	if target > s.now {
		s.now = target
	}
	WaitQuiescent()
}

// NumTickers is for oracles/probes.
//
//go:norace
func NumTickers() int {
	s := S
	if s == nil {
		return 0
	}
	n := 0
	for _, t := range s.timers {
		if !t.stopped && t.period != 0 {
			n++
		}
	}
	return n
}

//go:norace
func Now() time.Time {
	s := S
	if s == nil {
		return time.Now()
	}
	s.now++ // time is strictly increasing between two reads
	return epoch.Add(time.Duration(s.now))
}

//go:norace
func Elapsed() time.Duration {
	if S == nil {
		return 0
	}
	return time.Duration(S.now)
}

//go:norace
func Since(t time.Time) time.Duration { return Now().Sub(t) }

//go:norace
func Until(t time.Time) time.Duration { return t.Sub(Now()) }

type sleepWaiter struct{ when int64 }

//go:norace
func (w *sleepWaiter) simReady(*Task) bool { return S.now >= w.when }

//go:norace
func Sleep(d time.Duration) {
	s := S
	if s == nil {
		time.Sleep(d)
		return
	}
	if s.dead {
		return
	}
	s.yield()
	if d <= 0 {
		return
	}
	w := &sleepWaiter{when: s.now + int64(d)}
	s.addTimer(&timer{when: w.when, sleeper: true})
	for s.now < w.when {
		s.block(BKSleep, uintptr(unsafe.Pointer(w)), w)
	}
}

// Ticker mirrors time.Ticker.
type Ticker struct {
	C <-chan time.Time
	t *timer
	r *time.Ticker
}

//go:norace
func NewTicker(d time.Duration) *Ticker {
	s := S
	if s == nil {
		r := time.NewTicker(d)
		return &Ticker{C: r.C, r: r}
	}
	if d <= 0 {
		panic("non-positive interval for NewTicker")
	}
	ch := make(chan time.Time, 1)
	t := &timer{when: s.now + int64(d), period: int64(d), ch: ch}
	if !s.dead {
		s.addTimer(t)
	}
	return &Ticker{C: ch, t: t}
}

//go:norace
func (t *Ticker) Stop() {
	if t.r != nil {
		t.r.Stop()
		return
	}
	if S != nil && !S.dead {
		S.yield()
	}
	t.t.stopped = true
}

//go:norace
func (t *Ticker) Reset(d time.Duration) {
	if t.r != nil {
		t.r.Reset(d)
		return
	}
	s := S
	if s == nil || s.dead {
		return
	}
	s.yield()
	t.t.period = int64(d)
	t.t.when = s.now + int64(d)
	if t.t.stopped {
		t.t.stopped = false
		s.addTimer(t.t)
	}
}

// Timer mirrors time.Timer.
type Timer struct {
	C <-chan time.Time
	t *timer
	r *time.Timer
}

//go:norace
func NewTimer(d time.Duration) *Timer {
	s := S
	if s == nil {
		r := time.NewTimer(d)
		return &Timer{C: r.C, r: r}
	}
	ch := make(chan time.Time, 1)
	t := &timer{when: s.now + int64(d), ch: ch}
	if !s.dead {
		s.addTimer(t)
	}
	return &Timer{C: ch, t: t}
}

//go:norace
func (t *Timer) Stop() bool {
	if t.r != nil {
		return t.r.Stop()
	}
	if S != nil && !S.dead {
		S.yield()
	}
	was := !t.t.stopped && !t.t.fired
	t.t.stopped = true
	return was
}

//go:norace
func (t *Timer) Reset(d time.Duration) bool {
	if t.r != nil {
		return t.r.Reset(d)
	}
	s := S
	if s == nil || s.dead {
		return false
	}
	s.yield()
	was := !t.t.stopped && !t.t.fired
	nt := &timer{when: s.now + int64(d), ch: t.t.ch, fn: t.t.fn}
	t.t.stopped = true
	t.t = nt
	s.addTimer(nt)
	return was
}

//go:norace
func After(d time.Duration) <-chan time.Time { return NewTimer(d).C }

//go:norace
func Tick(d time.Duration) <-chan time.Time { return NewTicker(d).C }

//go:norace
func AfterFunc(d time.Duration, f func()) *Timer {
	s := S
	if s == nil {
		r := time.AfterFunc(d, f)
		return &Timer{r: r}
	}
	t := &timer{when: s.now + int64(d), fn: f}
	if !s.dead {
		s.addTimer(t)
	}
	return &Timer{t: t}
}
