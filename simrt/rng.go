package simrt

import "unsafe"

// rng is SplitMix64: tiny, seedable, no allocation.
type rng struct{ x uint64 }

//go:norace
func (r *rng) seed(s uint64) { r.x = s*0x9e3779b97f4a7c15 + 0x632be59bd9b4e019 }

//go:norace
func (r *rng) next() uint64 {
	r.x += 0x9e3779b97f4a7c15
	z := r.x
	z = (z ^ (z >> 30)) * 0xbf58476d1ce4e5b9
	z = (z ^ (z >> 27)) * 0x94d049bb133111eb
	return z ^ (z >> 31)
}

// Rand is an exported SplitMix64 for the harness' pre-run generation (program,
// configuration); it never touches the tape.
type Rand struct{ r rng }

//go:norace
func NewRand(seed uint64) *Rand { x := &Rand{}; x.r.seed(seed); return x }

//go:norace
func (x *Rand) Uint64() uint64 { return x.r.next() }

//go:norace
func (x *Rand) Intn(n int) int {
	if n <= 1 {
		return 0
	}
	return int(x.r.next() % uint64(n))
}

//go:norace
func (x *Rand) Chance(pct int) bool { return x.Intn(100) < pct }

// ptrSet is an open-addressing set of pointers (no Go map: map accesses are
// race-annotated inside the runtime).
type ptrSet struct {
	slots []unsafe.Pointer
	n     int
}

//go:norace
func (p *ptrSet) has(k unsafe.Pointer) bool {
	if len(p.slots) == 0 || k == nil {
		return false
	}
	m := uintptr(len(p.slots) - 1)
	i := (uintptr(k) >> 4 * 0x9e3779b1) & m
	for {
		v := p.slots[i]
		if v == nil {
			return false
		}
		if v == k {
			return true
		}
		i = (i + 1) & m
	}
}

//go:norace
func (p *ptrSet) add(k unsafe.Pointer) {
	if k == nil || p.has(k) {
		return
	}
	if (p.n+1)*2 > len(p.slots) {
		old := p.slots
		nl := 64
		if len(old) > 0 {
			nl = len(old) * 2
		}
		p.slots = make([]unsafe.Pointer, nl)
		p.n = 0
		for _, v := range old {
			if v != nil {
				p.insert(v)
			}
		}
	}
	p.insert(k)
}

//go:norace
func (p *ptrSet) insert(k unsafe.Pointer) {
	m := uintptr(len(p.slots) - 1)
	i := (uintptr(k) >> 4 * 0x9e3779b1) & m
	for p.slots[i] != nil {
		i = (i + 1) & m
	}
	p.slots[i] = k
	p.n++
}
