//go:build !race

package simrt

import (
	"runtime"
	"unsafe"
)

// Without the race detector there is nothing to hide from, so the token is
// handed over through one-slot channels (O(1) instead of polling).  The
// schedule is decided by the same code either way.

func (s *Sim) initHandoff() { s.doneCh = make(chan struct{}) }

func (s *Sim) initTask(t *Task) { t.wake = make(chan struct{}, 1) }

func (s *Sim) passTo(t *Task) {
	s.turn = t.ID
	select {
	case t.wake <- struct{}{}:
	default:
	}
}

func (s *Sim) signalFinished() { close(s.doneCh) }

func (s *Sim) waitFinished() { <-s.doneCh }

func (s *Sim) wakeAll() {
	for _, t := range s.tasks {
		select {
		case t.wake <- struct{}{}:
		default:
		}
	}
}

func (s *Sim) park(t *Task) {
	for s.turn != t.ID {
		if s.dead {
			runtime.Goexit()
		}
		<-t.wake
	}
	if s.dead {
		runtime.Goexit()
	}
	s.cur = t
}

func raceRead(unsafe.Pointer)  {}
func raceWrite(unsafe.Pointer) {}
