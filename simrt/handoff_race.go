//go:build race

package simrt

import (
	"runtime"
	"time"
	"unsafe"
)

// Under the race detector the token is a plain word that parked tasks poll:
// no channel, mutex or atomic is involved, so the hand-off creates no
// happens-before edge and hides no race (DESIGN §2.2).

//go:norace
func (s *Sim) initHandoff() {}

//go:norace
func (s *Sim) initTask(t *Task) {}

//go:norace
func (s *Sim) passTo(t *Task) { s.turn = t.ID }

//go:norace
func (s *Sim) signalFinished() {}

//go:norace
func (s *Sim) wakeAll() {}

//go:norace
func (s *Sim) waitFinished() {
	spins := 0
	for !s.finished {
		spins++
		if spins < 200 {
			runtime.Gosched()
		} else {
			time.Sleep(20 * time.Microsecond)
		}
	}
}

// park waits until t holds the token.
//
//go:norace
func (s *Sim) park(t *Task) {
	spins := 0
	for s.turn != t.ID {
		if s.dead {
			runtime.Goexit()
		}
		spins++
		if spins < 2000 {
			runtime.Gosched()
		} else {
			time.Sleep(10 * time.Microsecond)
		}
	}
	if s.dead {
		runtime.Goexit()
	}
	s.cur = t
}

//go:norace
func raceRead(p unsafe.Pointer) { runtime.RaceRead(p) }

//go:norace
func raceWrite(p unsafe.Pointer) { runtime.RaceWrite(p) }
