package simrt

import (
	"sync"
	"unsafe"
)

// Every substitute wraps the real primitive: the simulator decides readiness,
// then the real operation is executed and cannot block.  Memory-model edges and
// panics are therefore those of the real primitive.

// ---------------------------------------------------------------- Mutex

type Mutex struct {
	real   sync.Mutex
	locked bool
}

//go:norace
func (m *Mutex) simReady(*Task) bool { return !m.locked }

//go:norace
func (m *Mutex) Lock() {
	s := S
	if s == nil {
		m.real.Lock()
		return
	}
	if s.dead {
		return
	}
	s.yield()
	for m.locked {
		s.block(BKMutex, uintptr(unsafe.Pointer(m)), m)
	}
	m.locked = true
	m.real.Lock()
}

//go:norace
func (m *Mutex) TryLock() bool {
	s := S
	if s == nil {
		return m.real.TryLock()
	}
	if s.dead {
		return false
	}
	s.yield()
	if m.locked {
		return false
	}
	m.locked = true
	m.real.Lock()
	return true
}

//go:norace
func (m *Mutex) Unlock() {
	s := S
	if s == nil {
		m.real.Unlock()
		return
	}
	if s.dead {
		return
	}
	m.real.Unlock() // throws if not locked, like the real one
	m.locked = false
	s.yield()
}

// ---------------------------------------------------------------- RWMutex

type RWMutex struct {
	real     sync.RWMutex
	writer   bool
	readers  int
	wwaiting int // writers blocked in Lock: new readers wait behind them, as in Go
}

//go:norace
func (m *RWMutex) simReady(t *Task) bool {
	if t.bkind == BKRMutex {
		return !m.writer && m.wwaiting == 0
	}
	return !m.writer && m.readers == 0
}

//go:norace
func (m *RWMutex) Lock() {
	s := S
	if s == nil {
		m.real.Lock()
		return
	}
	if s.dead {
		return
	}
	s.yield()
	for m.writer || m.readers > 0 {
		m.wwaiting++
		s.block(BKMutex, uintptr(unsafe.Pointer(m)), m)
		m.wwaiting--
	}
	m.writer = true
	m.real.Lock()
}

//go:norace
func (m *RWMutex) Unlock() {
	s := S
	if s == nil {
		m.real.Unlock()
		return
	}
	if s.dead {
		return
	}
	m.real.Unlock()
	m.writer = false
	s.yield()
}

//go:norace
func (m *RWMutex) RLock() {
	s := S
	if s == nil {
		m.real.RLock()
		return
	}
	if s.dead {
		return
	}
	s.yield()
	for m.writer || m.wwaiting > 0 {
		s.block(BKRMutex, uintptr(unsafe.Pointer(m)), m)
	}
	m.readers++
	m.real.RLock()
}

//go:norace
func (m *RWMutex) RUnlock() {
	s := S
	if s == nil {
		m.real.RUnlock()
		return
	}
	if s.dead {
		return
	}
	m.real.RUnlock()
	m.readers--
	s.yield()
}

//go:norace
func (m *RWMutex) TryLock() bool {
	s := S
	if s == nil {
		return m.real.TryLock()
	}
	if s.dead {
		return false
	}
	s.yield()
	if m.writer || m.readers > 0 {
		return false
	}
	m.writer = true
	m.real.Lock()
	return true
}

//go:norace
func (m *RWMutex) TryRLock() bool {
	s := S
	if s == nil {
		return m.real.TryRLock()
	}
	if s.dead {
		return false
	}
	s.yield()
	if m.writer || m.wwaiting > 0 {
		return false
	}
	m.readers++
	m.real.RLock()
	return true
}

// RLocker mirrors sync.RWMutex.RLocker.
//
//go:norace
func (m *RWMutex) RLocker() sync.Locker { return (*rlocker)(m) }

type rlocker RWMutex

//go:norace
func (r *rlocker) Lock() { (*RWMutex)(r).RLock() }

//go:norace
func (r *rlocker) Unlock() { (*RWMutex)(r).RUnlock() }

// ---------------------------------------------------------------- Cond

// Cond mirrors sync.Cond: no spurious wake-ups, a Broadcast without waiters is
// lost.  Happens-before edges come from L, as with the real Cond.
type Cond struct {
	L       sync.Locker
	waiters []*condWaiter
	real    *sync.Cond // used only without a simulator
}

type condWaiter struct {
	t        *Task
	signaled bool
}

//go:norace
func (w *condWaiter) simReady(*Task) bool { return w.signaled }

//go:norace
func NewCond(l sync.Locker) *Cond {
	return &Cond{L: l, real: sync.NewCond(l)}
}

//go:norace
func (c *Cond) Wait() {
	s := S
	if s == nil {
		c.real.Wait()
		return
	}
	if s.dead {
		return
	}
	w := &condWaiter{t: s.cur}
	c.waiters = append(c.waiters, w)
	// unlock + enqueue are atomic: nobody ran in between
	c.L.Unlock()
	if s.dead {
		return
	}
	for !w.signaled {
		s.block(BKCond, uintptr(unsafe.Pointer(c)), w)
	}
	c.L.Lock()
}

//go:norace
func (c *Cond) Broadcast() {
	s := S
	if s == nil {
		c.real.Broadcast()
		return
	}
	if s.dead {
		return
	}
	s.yield()
	for _, w := range c.waiters {
		w.signaled = true
	}
	c.waiters = c.waiters[:0]
}

//go:norace
func (c *Cond) Signal() {
	s := S
	if s == nil {
		c.real.Signal()
		return
	}
	if s.dead {
		return
	}
	s.yield()
	if len(c.waiters) > 0 {
		c.waiters[0].signaled = true
		c.waiters = c.waiters[1:]
	}
}

// NumWaiters is for oracles.
//
//go:norace
func (c *Cond) NumWaiters() int { return len(c.waiters) }

// ---------------------------------------------------------------- WaitGroup

type WaitGroup struct {
	real    sync.WaitGroup
	n       int
	waiters int    // tasks parked in Wait
	zeroGen uint64 // number of times the counter came back to zero
	rw      int32  // stands for the real WaitGroup's semaphore word in the race model
}

//go:norace
func (w *WaitGroup) simReady(*Task) bool { return w.n <= 0 }

type wgWaiter struct {
	w   *WaitGroup
	gen uint64
}

//go:norace
func (x *wgWaiter) simReady(*Task) bool { return x.w.zeroGen != x.gen }

// The real WaitGroup tells the race detector that the first increment from zero
// must be ordered with a Wait that blocks (a read of its semaphore word in Add,
// a write by the first waiter).  The real Wait is only executed here once the
// counter is zero and so never reaches that annotation: it is replayed on rw.
// The two misuse panics that need a parked waiter are replayed as well.
//
//go:norace
func (w *WaitGroup) Add(d int) {
	s := S
	if s == nil {
		w.real.Add(d)
		return
	}
	if s.dead {
		return
	}
	s.yield()
	w.real.Add(d) // panics on a negative counter, like the real one
	w.n += d
	if d > 0 && w.n == d {
		raceRead(unsafe.Pointer(&w.rw))
	}
	if d < 0 && w.n == 0 {
		w.zeroGen++
	}
}

//go:norace
func (w *WaitGroup) Done() { w.Add(-1) }

//go:norace
func (w *WaitGroup) Wait() {
	s := S
	if s == nil {
		w.real.Wait()
		return
	}
	if s.dead {
		return
	}
	s.yield()
	if w.n > 0 {
		if w.waiters == 0 {
			raceWrite(unsafe.Pointer(&w.rw))
		}
		// like the semaphore of the real one: released for good once the counter
		// has been back to zero, whatever happens to the counter afterwards
		ww := &wgWaiter{w: w, gen: w.zeroGen}
		w.waiters++
		s.block(BKWaitGroup, uintptr(unsafe.Pointer(w)), ww)
		w.waiters--
		if s.dead {
			return
		}
		if w.n > 0 {
			panic("sync: WaitGroup is reused before previous Wait has returned")
		}
	}
	w.real.Wait()
}

//go:norace
func (w *WaitGroup) Go(f func()) {
	w.Add(1)
	Go("WaitGroup.Go", func() {
		defer w.Done()
		f()
	})
}

// ---------------------------------------------------------------- Once

type Once struct {
	m    Mutex
	done bool
}

//go:norace
func (o *Once) Do(f func()) {
	o.m.Lock()
	defer o.m.Unlock()
	if !o.done {
		defer func() { o.done = true }()
		f()
	}
}

// ---------------------------------------------------------------- Pool

// Pool is a deterministic sync.Pool: LIFO, and with probability PoolDrop a Get
// ignores the cache (what a GC cycle does to a real pool).
type Pool struct {
	New   func() any
	items []poolItem
	real  sync.Pool // without a simulator
}

type poolItem struct {
	v  any
	hb *sync.Mutex // per-object release/acquire edge, as in sync.Pool
}

//go:norace
func (p *Pool) Get() any {
	s := S
	if s == nil {
		if p.real.New == nil {
			p.real.New = p.New
		}
		return p.real.Get()
	}
	if s.dead {
		if p.New != nil {
			return p.New()
		}
		return nil
	}
	s.yield()
	if n := len(p.items); n > 0 {
		drop := s.opt.PoolDrop > 0 && s.choose(100) >= 100-s.opt.PoolDrop
		if drop {
			s.PoolDrops++
			p.items = p.items[:0] // a GC empties the pool
		} else {
			it := p.items[n-1]
			p.items = p.items[:n-1]
			it.hb.Lock()
			it.hb.Unlock()
			return it.v
		}
	}
	if p.New != nil {
		return p.New()
	}
	return nil
}

//go:norace
func (p *Pool) Put(v any) {
	s := S
	if s == nil {
		p.real.Put(v)
		return
	}
	if s.dead {
		return
	}
	s.yield()
	hb := &sync.Mutex{}
	hb.Lock()
	hb.Unlock()
	p.items = append(p.items, poolItem{v: v, hb: hb})
}

// ---------------------------------------------------------------- Gate (harness)

// Gate blocks callers of Wait until Open is called.
type Gate struct {
	open bool
	Waiting int
}

//go:norace
func (g *Gate) simReady(*Task) bool { return g.open }

//go:norace
func (g *Gate) Wait() {
	s := S
	if s == nil || s.dead {
		return
	}
	s.yield()
	for !g.open {
		g.Waiting++
		s.block(BKGate, uintptr(unsafe.Pointer(g)), g)
		g.Waiting--
	}
}

//go:norace
func (g *Gate) Open() {
	g.open = true
	if S != nil && !S.dead {
		S.yield()
	}
}

//go:norace
func (g *Gate) IsOpen() bool { return g.open }
