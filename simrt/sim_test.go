package simrt

import (
	"os"
	"testing"
	"time"
)

var racy int

func opts(seed uint64) Options {
	return Options{Seed: seed, MaxSteps: 100000, Strategy: int(seed % 3), Stick: 50, PCTDepth: 2, PCTHorizon: 200, NPPreempt: 2, NPHorizon: 100, TickWeight: 5}
}

func scenario(mu *Mutex, ctr *int, log *[]int) func() {
	return func() {
		var wg WaitGroup
		for i := 0; i < 4; i++ {
			wg.Add(1)
			id := i
			GoHarness("w", func() {
				for k := 0; k < 5; k++ {
					mu.Lock()
					*ctr++
					*log = append(*log, id)
					mu.Unlock()
					YieldAlways()
				}
				wg.Done()
			})
		}
		wg.Wait()
		Finish()
	}
}

func TestDeterminismAndMutex(t *testing.T) {
	for seed := uint64(1); seed < 60; seed++ {
		var tapes [2][]uint32
		var logs [2][]int
		for r := 0; r < 2; r++ {
			var mu Mutex
			ctr := 0
			s := New(opts(seed))
			res := s.Run(scenario(&mu, &ctr, &logs[r]))
			if res.Verdict != VDone {
				t.Fatalf("seed %d verdict %v %s", seed, res.Verdict, res.Msg)
			}
			if ctr != 20 {
				t.Fatalf("ctr=%d", ctr)
			}
			tapes[r] = res.Tape
		}
		if len(tapes[0]) != len(tapes[1]) {
			t.Fatalf("seed %d tape len differs", seed)
		}
		for i := range tapes[0] {
			if tapes[0][i] != tapes[1][i] {
				t.Fatalf("seed %d tape differs at %d", seed, i)
			}
		}
		for i := range logs[0] {
			if logs[0][i] != logs[1][i] {
				t.Fatalf("seed %d log differs", seed)
			}
		}
		// replay from tape reproduces the log
		var mu Mutex
		ctr := 0
		var l3 []int
		o := opts(seed)
		o.Replay = tapes[0]
		o.Strict = true
		s := New(o)
		res := s.Run(scenario(&mu, &ctr, &l3))
		if res.Verdict != VDone || s.Diverged {
			t.Fatalf("replay verdict %v diverged=%v", res.Verdict, s.Diverged)
		}
		for i := range logs[0] {
			if logs[0][i] != l3[i] {
				t.Fatalf("seed %d replay log differs", seed)
			}
		}
	}
}

// With VERIF_RACY=1 this test must make the race detector report (hand-off is
// invisible); without it the mutex-protected variant above must stay silent.
func TestRacyCounterIsVisibleToDetector(t *testing.T) {
	if os.Getenv("VERIF_RACY") == "" {
		t.Skip("set VERIF_RACY=1 under -race to see the report")
	}
	s := New(opts(7))
	s.Run(func() {
		var wg WaitGroup
		for i := 0; i < 2; i++ {
			wg.Add(1)
			GoHarness("w", func() {
				racyInc()
				wg.Done()
			})
		}
		wg.Wait()
		Finish()
	})
}

func racyInc() { racy++ }

func TestCondLostBroadcastAndHang(t *testing.T) {
	s := New(Options{Seed: 1, Strategy: StratNP})
	var mu RWMutex
	c := NewCond(&mu)
	res := s.Run(func() {
		c.Broadcast() // nobody waits: lost
		mu.Lock()
		c.Wait()
		mu.Unlock()
		Finish()
	})
	if res.Verdict != VHang {
		t.Fatalf("want hang, got %v", res.Verdict)
	}
	if !res.Tasks[1].IsBlocked() || res.Tasks[1].BlockKind() != "cond" {
		t.Fatalf("root should be blocked on cond: %v", res.Tasks[1].BlockKind())
	}
}

func TestWaitGroupNegativeIsCrash(t *testing.T) {
	s := New(Options{Seed: 1})
	res := s.Run(func() {
		var wg WaitGroup
		wg.Add(1)
		wg.Done()
		wg.Done()
		Finish()
	})
	if res.Verdict != VCrash {
		t.Fatalf("want crash, got %v", res.Verdict)
	}
}

func TestTickerSemantics(t *testing.T) {
	s := New(Options{Seed: 3})
	got := 0
	res := s.Run(func() {
		tk := NewTicker(10 * time.Millisecond)
		done := false
		GoHarness("reader", func() {
			for {
				RecvWait(tk.C)
				if done {
					return
				}
				<-tk.C
				got++
			}
		})
		AdvanceTime(35 * time.Millisecond) // 3 ticks
		if got != 3 {
			Fail("t", "ticks")
		}
		tk.Stop()
		AdvanceTime(100 * time.Millisecond)
		if got != 3 {
			Fail("t", "ticks after stop")
		}
		// Stop does not close the channel: reader stays blocked
		WaitQuiescent()
		Finish()
	})
	if res.Verdict != VDone {
		t.Fatalf("verdict %v %s got=%d", res.Verdict, res.Msg, got)
	}
	if !res.Tasks[2].IsBlocked() {
		t.Fatalf("reader must still be blocked on the ticker channel")
	}
}

func TestSleepAndChannels(t *testing.T) {
	s := New(Options{Seed: 5, Strategy: StratRW, Stick: 30})
	var order []int
	res := s.Run(func() {
		ch := make(chan int, 1)
		GoHarness("a", func() { Sleep(20 * time.Millisecond); order = append(order, 2); SendWait(ch); ch <- 1 })
		GoHarness("b", func() { Sleep(10 * time.Millisecond); order = append(order, 1) })
		RecvWait(ch)
		<-ch
		order = append(order, 3)
		Close(ch)
		close(ch)
		RecvWait(ch)
		_, ok := <-ch
		if ok {
			Fail("t", "closed recv")
		}
		Finish()
	})
	if res.Verdict != VDone || len(order) != 3 || order[0] != 1 || order[1] != 2 || order[2] != 3 {
		t.Fatalf("verdict %v order %v", res.Verdict, order)
	}
	if res.Now < 20*time.Millisecond {
		t.Fatalf("clock %v", res.Now)
	}
}

func TestSendOnClosedIsCrash(t *testing.T) {
	s := New(Options{Seed: 1})
	res := s.Run(func() {
		ch := make(chan int, 1)
		Close(ch)
		close(ch)
		SendWait(ch)
		ch <- 1
		Finish()
	})
	if res.Verdict != VCrash {
		t.Fatalf("want crash got %v", res.Verdict)
	}
}

func TestRWMutexWriterPreference(t *testing.T) {
	s := New(Options{Seed: 1, Strategy: StratNP})
	res := s.Run(func() {
		var mu RWMutex
		mu.RLock()
		var wgot Gate
		GoHarness("writer", func() { mu.Lock(); wgot.Open(); mu.Unlock() })
		WaitQuiescent() // writer is now waiting
		if mu.TryRLock() {
			Fail("t", "reader overtook a waiting writer")
		}
		mu.RUnlock()
		WaitQuiescent()
		if !wgot.IsOpen() {
			Fail("t", "writer did not get the lock")
		}
		Finish()
	})
	if res.Verdict != VDone {
		t.Fatalf("%v %s", res.Verdict, res.Msg)
	}
}

func BenchmarkSteps(b *testing.B) {
	s := New(Options{Seed: 1, MaxSteps: 1 << 60, Strategy: StratRW, Stick: 0})
	n := b.N
	s.Run(func() {
		for i := 0; i < 11; i++ {
			GoHarness("w", func() {
				for {
					YieldAlways()
				}
			})
		}
		for i := 0; i < n; i++ {
			YieldAlways()
		}
		Finish()
	})
}

// A waiter released by the counter reaching zero that finds the counter raised
// again before it ran dies like the real one ("reused before previous Wait has
// returned"); some seed must find that order, and no seed may find it when the
// second Add waits for the first Wait.
func TestWaitGroupReuseIsCrash(t *testing.T) {
	crashed := 0
	for seed := uint64(1); seed <= 40; seed++ {
		s := New(Options{Seed: seed})
		res := s.Run(func() {
			var wg WaitGroup
			wg.Add(1)
			n := 0
			GoHarness("waiter", func() { wg.Wait(); n++ })
			GoHarness("worker", func() {
				wg.Done()
				wg.Add(1) // reuse without waiting for the waiter
				wg.Done()
				n++
			})
			Block(func() bool { return n == 2 })
			Finish()
		})
		if res.Verdict == VCrash {
			crashed++
		}
	}
	if crashed == 0 {
		t.Fatalf("no schedule in 40 reached the reuse panic")
	}
	for seed := uint64(1); seed <= 40; seed++ {
		s := New(Options{Seed: seed})
		res := s.Run(func() {
			var wg WaitGroup
			wg.Add(1)
			waited := false
			GoHarness("waiter", func() { wg.Wait(); waited = true })
			GoHarness("worker", func() {
				wg.Done()
				Block(func() bool { return waited })
				wg.Add(1)
				wg.Done()
			})
			Block(func() bool { return waited })
			Finish()
		})
		if res.Verdict == VCrash {
			t.Fatalf("seed %d: proper reuse reported as a crash", seed)
		}
	}
}
