package simrt

import (
	"runtime"
	"unsafe"
)

// Channel operations stay native in the instrumented code; the simulator only
// decides when they are ready, e.g.
//
//	simrt.SendWait(ch); ch <- v
//	simrt.RecvWait(ch); v, ok := <-ch
//	simrt.Close(ch);    close(ch)
//
// Only one task runs, so check-then-operate cannot race and the native
// operation never blocks.  Length, capacity and closedness are read straight
// from the runtime's channel header (layout verified at start-up), so channels
// closed by uninstrumented code (context.Done) are handled like any other.

// hchan mirrors the head of runtime.hchan (go1.26).
type hchan struct {
	qcount   uint
	dataqsiz uint
	buf      unsafe.Pointer
	elemsize uint16
	closed   uint32
}

//go:norace
func chanOf(ch any) *hchan {
	return (*hchan)((*[2]unsafe.Pointer)(unsafe.Pointer(&ch))[1])
}

func init() {
	c := make(chan int32, 3)
	h := chanOf(c)
	c <- 1
	if h.qcount != 1 || h.dataqsiz != 3 || h.elemsize != 4 || h.closed != 0 {
		panic("simrt: runtime.hchan layout changed; this toolchain is not supported")
	}
	close(c)
	if h.closed == 0 {
		panic("simrt: runtime.hchan layout changed; this toolchain is not supported")
	}
	var r <-chan int32 = c
	if chanOf(r) != h {
		panic("simrt: channel interface layout changed")
	}
}

type chanWaiter struct{ h *hchan }

//go:norace
func (w chanWaiter) simReady(t *Task) bool {
	if t.bkind == BKSend {
		return sendReady(w.h)
	}
	return recvReady(w.h)
}

//go:norace
func sendReady(h *hchan) bool {
	if h == nil {
		return false // nil channel blocks forever
	}
	if h.closed != 0 {
		return true // the native send panics, as it must
	}
	return h.dataqsiz > 0 && h.qcount < h.dataqsiz
}

//go:norace
func recvReady(h *hchan) bool {
	if h == nil {
		return false
	}
	return h.qcount > 0 || h.closed != 0
}

// SendWait returns when a send on ch cannot block.
//
//go:norace
func SendWait(ch any) {
	s := S
	if s == nil || s.dead {
		return
	}
	s.yield()
	h := chanOf(ch)
	if sendReady(h) {
		return
	}
	if h != nil && h.dataqsiz == 0 {
		s.finish(VInternal, "unsupported", "send on an unbuffered channel (rendezvous is not simulated)")
		runtime.Goexit()
	}
	for !sendReady(h) {
		s.block(BKSend, uintptr(unsafe.Pointer(h)), chanWaiter{h})
	}
}

// RecvWait returns when a receive on ch cannot block.
//
//go:norace
func RecvWait(ch any) {
	s := S
	if s == nil || s.dead {
		return
	}
	s.yield()
	h := chanOf(ch)
	for !recvReady(h) {
		s.block(BKRecv, uintptr(unsafe.Pointer(h)), chanWaiter{h})
	}
}

// Close is the yield point in front of a native close.
//
//go:norace
func Close(ch any) {
	s := S
	if s == nil || s.dead {
		return
	}
	s.yield()
}

// ChanClosed / ChanLen are for oracles.
//
//go:norace
func ChanClosed(ch any) bool {
	h := chanOf(ch)
	return h != nil && h.closed != 0
}

//go:norace
func ChanLen(ch any) int {
	h := chanOf(ch)
	if h == nil {
		return 0
	}
	return int(h.qcount)
}

// Select support: the instrumenter turns
//
//	select { case ch1 <- x: A; case v := <-ch2: B; default: C }
//
// into a switch on simrt.Select(hasDefault, simrt.SendCase(c1), simrt.RecvCase(c2))
// whose arms perform the chosen native operation first.
type SelCase struct {
	h    *hchan
	send bool
}

//go:norace
func SendCase(ch any) SelCase { return SelCase{h: chanOf(ch), send: true} }

//go:norace
func RecvCase(ch any) SelCase { return SelCase{h: chanOf(ch)} }

//go:norace
func (c SelCase) ready() bool {
	if c.send {
		return sendReady(c.h)
	}
	return recvReady(c.h)
}

type selWaiter struct{ cases []SelCase }

//go:norace
func (w *selWaiter) simReady(*Task) bool {
	for i := range w.cases {
		if w.cases[i].ready() {
			return true
		}
	}
	return false
}

// Select returns the index of the case to execute, or -1 for default.
//
//go:norace
func Select(hasDefault bool, cases ...SelCase) int {
	s := S
	if s == nil || s.dead {
		return -1
	}
	s.yield()
	for {
		var ready [8]int
		rs := ready[:0]
		for i := range cases {
			if cases[i].ready() {
				rs = append(rs, i)
			}
		}
		if len(rs) == 1 {
			return rs[0]
		}
		if len(rs) > 1 {
			return rs[s.choose(len(rs))] // Go picks uniformly among ready cases
		}
		if hasDefault {
			return -1
		}
		for _, c := range cases {
			if c.send && c.h != nil && c.h.dataqsiz == 0 && c.h.closed == 0 {
				s.finish(VInternal, "unsupported", "select send on an unbuffered channel")
				runtime.Goexit()
			}
		}
		s.block(BKRecv, 0, &selWaiter{cases: cases})
	}
}
