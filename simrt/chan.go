package simrt

import (
	"reflect"
	"runtime"
	"unsafe"
)

// Channel operations stay native in the instrumented code; the simulator only
// decides when they are ready, e.g.
//
//	simrt.SendWait(ch); ch <- v
//	simrt.RecvWait(ch); v, ok := <-ch
//	simrt.Close(ch);    close(ch)
//
// Only one task runs, so check-then-operate cannot race and the native
// operation never blocks.  Closedness is tracked at Close; channels closed by
// uninstrumented code (context.Done) are probed with a non-blocking receive,
// which is safe because nothing is ever sent on them.

type chanWaiter struct {
	ch    reflect.Value
	p     unsafe.Pointer
	probe bool // Done()-style channel: closedness is probed
}

//go:norace
func chanPtr(v reflect.Value) unsafe.Pointer { return v.UnsafePointer() }

//go:norace
func (w *chanWaiter) simReady(t *Task) bool {
	s := S
	if w.p == nil {
		return false // nil channel blocks forever
	}
	if t.bkind == BKSend {
		if s.closed.has(w.p) {
			return true // the native send will panic, as it must
		}
		c := w.ch.Cap()
		if c == 0 {
			return false // unbuffered rendezvous is not supported (fail-closed elsewhere)
		}
		return w.ch.Len() < c
	}
	if w.ch.Len() > 0 || s.closed.has(w.p) {
		return true
	}
	if w.probe {
		return probeClosed(w.ch)
	}
	return false
}

//go:norace
func probeClosed(ch reflect.Value) bool {
	// only for channels on which nothing is ever sent
	chosen, _, recvOK := reflect.Select([]reflect.SelectCase{
		{Dir: reflect.SelectRecv, Chan: ch},
		{Dir: reflect.SelectDefault},
	})
	return chosen == 0 && !recvOK
}

// SendWait returns when a send on ch cannot block.
//
//go:norace
func SendWait(ch any) {
	s := S
	if s == nil || s.dead {
		return
	}
	s.yield()
	v := reflect.ValueOf(ch)
	w := &chanWaiter{ch: v, p: chanPtr(v)}
	s.cur.bkind = BKSend
	if w.simReady(s.cur) {
		s.cur.bkind = BKNone
		return
	}
	if w.p != nil && v.Cap() == 0 {
		s.cur.bkind = BKNone
		s.finish(VInternal, "unsupported", "send on an unbuffered channel (rendezvous is not simulated)")
		goexit()
	}
	for {
		s.block(BKSend, uintptr(w.p), w)
		s.cur.bkind = BKSend
		ok := w.simReady(s.cur)
		s.cur.bkind = BKNone
		if ok {
			return
		}
	}
}

// RecvWait returns when a receive on ch cannot block.
//
//go:norace
func RecvWait(ch any) { recvWait(ch, false) }

// RecvWaitDone is RecvWait for context-style Done channels that are closed by
// uninstrumented code.
//
//go:norace
func RecvWaitDone(ch any) { recvWait(ch, true) }

//go:norace
func recvWait(ch any, probe bool) {
	s := S
	if s == nil || s.dead {
		return
	}
	s.yield()
	v := reflect.ValueOf(ch)
	w := &chanWaiter{ch: v, p: chanPtr(v), probe: probe}
	s.cur.bkind = BKRecv
	ok := w.simReady(s.cur)
	s.cur.bkind = BKNone
	if ok {
		return
	}
	for {
		s.block(BKRecv, uintptr(w.p), w)
		s.cur.bkind = BKRecv
		ok := w.simReady(s.cur)
		s.cur.bkind = BKNone
		if ok {
			return
		}
	}
}

// Close records that ch is being closed (the native close follows).
//
//go:norace
func Close(ch any) {
	s := S
	if s == nil || s.dead {
		return
	}
	s.yield()
	v := reflect.ValueOf(ch)
	if p := chanPtr(v); p != nil {
		s.closed.add(p)
	}
}

// IsClosed reports whether ch was closed through Close (for oracles).
//
//go:norace
func IsClosed(ch any) bool {
	s := S
	if s == nil {
		return false
	}
	return s.closed.has(chanPtr(reflect.ValueOf(ch)))
}

// Select support: the instrumenter turns
//
//	select { case ch1 <- x: A; case v := <-ch2: B; default: C }
//
// into a switch on simrt.Select(hasDefault, simrt.SendCase(c1), simrt.RecvCase(c2))
// whose arms perform the chosen native operation first.
type SelCase struct {
	ch   reflect.Value
	p    unsafe.Pointer
	send bool
	probe bool
}

//go:norace
func SendCase(ch any) SelCase {
	v := reflect.ValueOf(ch)
	return SelCase{ch: v, p: chanPtr(v), send: true}
}

//go:norace
func RecvCase(ch any) SelCase {
	v := reflect.ValueOf(ch)
	return SelCase{ch: v, p: chanPtr(v)}
}

//go:norace
func RecvCaseDone(ch any) SelCase {
	v := reflect.ValueOf(ch)
	return SelCase{ch: v, p: chanPtr(v), probe: true}
}

//go:norace
func (c *SelCase) ready() bool {
	s := S
	if c.p == nil {
		return false
	}
	if c.send {
		if s.closed.has(c.p) {
			return true
		}
		cp := c.ch.Cap()
		return cp > 0 && c.ch.Len() < cp
	}
	if c.ch.Len() > 0 || s.closed.has(c.p) {
		return true
	}
	if c.probe {
		return probeClosed(c.ch)
	}
	return false
}

type selWaiter struct{ cases []SelCase }

//go:norace
func (w *selWaiter) simReady(*Task) bool {
	for i := range w.cases {
		if w.cases[i].ready() {
			return true
		}
	}
	return false
}

// Select returns the index of the case to execute, or -1 for default.
//
//go:norace
func Select(hasDefault bool, cases ...SelCase) int {
	s := S
	if s == nil || s.dead {
		// without a simulator the instrumented code is not used
		return -1
	}
	s.yield()
	for {
		var ready [8]int
		rs := ready[:0]
		for i := range cases {
			if cases[i].ready() {
				rs = append(rs, i)
			}
		}
		if len(rs) == 1 {
			return rs[0]
		}
		if len(rs) > 1 {
			return rs[s.choose(len(rs))] // Go picks uniformly among ready cases
		}
		if hasDefault {
			return -1
		}
		w := &selWaiter{cases: cases}
		s.block(BKRecv, 0, w)
	}
}

//go:norace
func goexit() { runtime.Goexit() }
