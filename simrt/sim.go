// Package simrt is the deterministic simulator that runs varmq's goroutines one
// at a time under a seeded scheduler (DESIGN.md §2).  It is injected into the
// module by `go test -overlay` as github.com/goptics/varmq/internal/simrt.
//
// Rules for this package (they keep the race detector blind to the scheduler):
//   - every function is //go:norace;
//   - scheduler state is plain memory, touched only by the task that holds the
//     token (or by the controlling goroutine while no task runs);
//   - no Go maps, no channels, no sync/atomic in the hand-off path.
package simrt

import (
	"fmt"
	"os"
	"runtime"
	"time"
)

// Verdict says why an episode ended.
type Verdict int

const (
	VRunning  Verdict = iota
	VDone             // root task called Finish (normal end)
	VFail             // an online oracle called Fail
	VCrash            // a task panicked (a real process would have died)
	VHang             // nothing runnable, no timer, root not finished
	VStepCap          // step budget exhausted
	VDiverged         // strict replay could not follow the tape
	VInternal         // simulator misuse
)

func (v Verdict) String() string {
	switch v {
	case VRunning:
		return "running"
	case VDone:
		return "done"
	case VFail:
		return "fail"
	case VCrash:
		return "crash"
	case VHang:
		return "hang"
	case VStepCap:
		return "stepcap"
	case VDiverged:
		return "diverged"
	default:
		return "internal"
	}
}

type taskState uint8

const (
	tsRunnable taskState = iota
	tsBlocked
	tsQuiesce // waiting for quiescence (harness only)
	tsExited
)

// Block kinds, for the blocked-task table.
const (
	BKNone = iota
	BKMutex
	BKRMutex
	BKCond
	BKWaitGroup
	BKSend
	BKRecv
	BKSleep
	BKGate
	BKQuiesce
	BKOther
)

var bkNames = [...]string{"none", "mutex", "rmutex", "cond", "waitgroup", "send", "recv", "sleep", "gate", "quiesce", "other"}

// readier decides whether a blocked task can proceed.  Implemented by the
// primitives (methods are norace; closures would not be).
type readier interface{ simReady(t *Task) bool }

// PredFunc adapts a harness predicate.
type PredFunc func() bool

//go:norace
func (p PredFunc) simReady(*Task) bool { return p() }

// Task is one simulated goroutine.
type Task struct {
	ID      int
	Name    string // creator: function containing the go statement, or harness name
	Lib     bool   // created by instrumented library code
	Creator int    // task id of the creator
	Born    uint64 // step of creation
	state   taskState
	wake    chan struct{}
	ready   readier
	bkind   int
	bobj    uintptr // identity of the object it is blocked on
	LastSite int32  // last statement-level site passed
	prio    int     // PCT priority
	waitSince uint64 // decision index since when it has been runnable but not chosen
	Exited  uint64 // step at exit
	PanicVal any
	PanicStack string
	matched bool // unbuffered rendezvous (unsupported marker)
	Frozen bool // killed by a simulated crash (never scheduled again)
	// user tag, free for the harness
	Tag int
}

func (t *Task) BlockKind() string { return bkNames[t.bkind] }
func (t *Task) BlockObj() uintptr  { return t.bobj }
func (t *Task) IsExited() bool     { return t.state == tsExited }
func (t *Task) IsBlocked() bool    { return t.state == tsBlocked || t.state == tsQuiesce }

// Strategy ids.
const (
	StratRW  = 0 // random walk with stickiness
	StratPCT = 1
	StratNP  = 2 // non-preemptive + k forced preemptions
)

// Options configures one episode.
type Options struct {
	Seed       uint64
	MaxSteps   uint64
	Strategy   int
	Stick      int // rw: probability (percent) to stay on the current task at a yield
	PCTDepth   int
	PCTHorizon int
	NPPreempt  int   // np: number of forced preemptions
	NPHorizon  int
	StmtDensity int  // percent of statement-level sites enabled as preemption points
	TickWeight int   // percent chance (per decision with armed tickers) to fire a tick spontaneously
	PoolDrop   int   // percent: Pool.Get ignores the cache
	TraceSwitches bool  // record every context switch (replay rendering)
	OnFinished func()   // called by Run when the episode is over, before parked tasks are released to die
	Replay     []uint32 // if non-nil: choices are read from here
	Strict     bool     // replay must match exactly
	NumSites   int
}

// Sim is one episode's world.
type Sim struct {
	opt     Options
	tasks   []*Task
	cur     *Task
	turn    int // id of the task that holds the token; -1 none
	steps   uint64
	decisions uint64
	rng     rng
	tape    []uint32
	rpos    int
	dead    bool
	finished bool
	doneCh  chan struct{}
	verdict Verdict
	failMsg string
	failClause string
	live    int // goroutines of this sim still alive
	now     int64
	timers  []*timer
	tseq    uint64
	clockTask *Task
	fireQ   []*timer
	closed  ptrSet
	siteOn  []bool
	pctChange []uint64
	npPoints  []uint64
	// metrics
	Switches   uint64
	Finger     uint64
	LibSwitches uint64
	Ticks      uint64
	PoolDrops  uint64
	Diverged   bool
	OnStep     func() // optional online invariant hook (norace!)
	passive uint64
	spinCap uint64
	SwitchLog []SwitchEv
	// crash (simulated process death) support
	frozen []bool
}

var debugSteps = os.Getenv("SIMRT_DEBUG") != ""

// SwitchEv is one context switch: at step Step task From (at site FromSite,
// blocked on FromBlock or "" when merely preempted) handed over to task To,
// which continues after site ToSite.
type SwitchEv struct {
	Step     uint64
	From, To int
	FromSite int32
	ToSite   int32
	FromBlock string
}

// S is the simulator of the running episode (nil: primitives pass through).
var S *Sim

// base wall-clock epoch of simulated time.
var epoch = time.Date(2030, 1, 1, 0, 0, 0, 0, time.UTC)

//go:norace
func New(opt Options) *Sim {
	s := &Sim{opt: opt, turn: -1}
	s.initHandoff()
	s.rng.seed(opt.Seed)
	if opt.MaxSteps == 0 {
		s.opt.MaxSteps = 200000
	}
	s.now = 0
	s.spinCap = 20*s.opt.MaxSteps + 1000000
	if opt.NumSites > 0 {
		s.siteOn = make([]bool, opt.NumSites+1)
		// site subset is derived from a separate stream so that it does not
		// depend on the tape
		var r rng
		r.seed(opt.Seed ^ 0x9e3779b97f4a7c15)
		for i := range s.siteOn {
			s.siteOn[i] = int(r.next()%100) < opt.StmtDensity
		}
	}
	var r2 rng
	r2.seed(opt.Seed ^ 0xc2b2ae3d27d4eb4f)
	if opt.Strategy == StratPCT {
		h := opt.PCTHorizon
		if h <= 0 {
			h = 1000
		}
		for i := 0; i < opt.PCTDepth; i++ {
			s.pctChange = append(s.pctChange, 1+r2.next()%uint64(h))
		}
	}
	if opt.Strategy == StratNP {
		h := opt.NPHorizon
		if h <= 0 {
			h = 1000
		}
		for i := 0; i < opt.NPPreempt; i++ {
			s.npPoints = append(s.npPoints, 1+r2.next()%uint64(h))
		}
	}
	return s
}

// Result is what Run returns to the controlling goroutine.
type Result struct {
	Verdict Verdict
	Clause  string
	Msg     string
	Steps   uint64
	Tape    []uint32
	Tasks   []*Task
	Now     time.Duration
	Switches []SwitchEv
}

// Run executes root as task 0 and returns when the episode is over.  Must be
// called from a goroutine that is not a task.
//
//go:norace
func (s *Sim) Run(root func()) Result {
	if S != nil {
		panic("simrt: nested Run")
	}
	S = s
	s.clockTask = s.newTask("simrt.clock", false)
	s.clockTask.state = tsBlocked
	s.clockTask.bkind = BKOther
	s.clockTask.ready = clockWaiter{}
	s.startGoroutine(s.clockTask, clockLoop)
	t := s.newTask("root", false)
	s.startGoroutine(t, root)
	s.cur = t
	s.passTo(t)
	s.waitFinished()
	if s.opt.OnFinished != nil {
		s.opt.OnFinished()
	}
	s.dead = true
	s.wakeAll()
	// let every parked goroutine leave
	deadline := time.Now().Add(2 * time.Second)
	for s.live > 0 && time.Now().Before(deadline) {
		time.Sleep(50 * time.Microsecond)
	}
	if debugSteps {
		println("simrt: episode end verdict", s.verdict.String(), "steps", s.steps, "live", s.live, "tasks", len(s.tasks))
	}
	S = nil
	return Result{Verdict: s.verdict, Clause: s.failClause, Msg: s.failMsg, Steps: s.steps, Tape: s.tape, Tasks: s.tasks, Now: time.Duration(s.now), Switches: s.SwitchLog}
}

type clockWaiter struct{}

//go:norace
func (clockWaiter) simReady(*Task) bool { return len(S.fireQ) > 0 }

//go:norace
func (s *Sim) newTask(name string, lib bool) *Task {
	t := &Task{ID: len(s.tasks), Name: name, Lib: lib, Born: s.steps}
	if s.cur != nil {
		t.Creator = s.cur.ID
	}
	t.prio = int(s.rngAux()%1000) + 1000
	t.waitSince = s.decisions
	s.initTask(t)
	s.tasks = append(s.tasks, t)
	return t
}

// rngAux draws from the main stream without recording (used only for values
// that are re-derivable: PCT priorities are recorded through the choices they
// cause, so they must not consume tape entries).
//
//go:norace
func (s *Sim) rngAux() uint64 {
	if s.opt.Replay != nil {
		return 0
	}
	return s.rng.next()
}

//go:norace
func (s *Sim) startGoroutine(t *Task, f func()) {
	s.live++
	go taskMain(s, t, f)
}

//go:norace
func taskMain(s *Sim, t *Task, f func()) {
	defer taskEnd(s, t)
	s.park(t)
	f()
}

//go:norace
func taskEnd(s *Sim, t *Task) {
	r := recover()
	if s.dead || s.finished {
		s.live--
		return
	}
	if r != nil {
		t.PanicVal = r
		buf := make([]byte, 8192)
		n := runtime.Stack(buf, false)
		t.PanicStack = string(buf[:n])
		t.state = tsExited
		t.Exited = s.steps
		s.live--
		s.finish(VCrash, "crash", fmt.Sprintf("task %d (%s) panicked: %v", t.ID, t.Name, r))
		return
	}
	t.state = tsExited
	t.Exited = s.steps
	s.live--
	// pick a successor; this goroutine ends.
	s.schedule(true)
}

//go:norace
func (s *Sim) finish(v Verdict, clause, msg string) {
	if s.finished {
		return
	}
	s.verdict = v
	s.failClause = clause
	s.failMsg = msg
	s.turn = -1
	s.finished = true
	s.signalFinished()
}

// Finish ends the episode normally (called by the root task when the program
// and its epilogue are over).  Does not return.
//
//go:norace
func Finish() {
	s := S
	if s == nil || s.dead {
		return
	}
	s.finish(VDone, "", "")
	s.cur.state = tsExited
	runtime.Goexit()
}

// Fail ends the episode with an oracle violation.  Does not return when called
// from a task.
//
//go:norace
func Fail(clause, msg string) {
	s := S
	if s == nil || s.dead || s.finished {
		return
	}
	s.finish(VFail, clause, msg)
	runtime.Goexit()
}

// choose draws an integer in [0,n) from the tape (replay) or the PRNG.
//
//go:norace
func (s *Sim) choose(n int) int {
	if n <= 1 {
		return 0
	}
	var v int
	if s.opt.Replay != nil {
		if s.rpos < len(s.opt.Replay) {
			v = int(s.opt.Replay[s.rpos])
			s.rpos++
			if v >= n {
				s.Diverged = true
				v = 0
			}
		} else {
			s.Diverged = true
			v = 0
		}
	} else {
		v = int(s.rng.next() % uint64(n))
	}
	s.tape = append(s.tape, uint32(v))
	return v
}

// record a choice that was computed by a strategy (not drawn): in replay the
// tape value overrides the strategy.
//
//go:norace
func (s *Sim) chooseWith(n int, strategic int) int {
	if n <= 1 {
		return 0
	}
	v := strategic
	if s.opt.Replay != nil {
		if s.rpos < len(s.opt.Replay) {
			v = int(s.opt.Replay[s.rpos])
			s.rpos++
			if v >= n {
				s.Diverged = true
				v = 0
			}
		} else {
			s.Diverged = true
			v = 0
		}
	}
	s.tape = append(s.tape, uint32(v))
	return v
}

// DropReplay ends tape-following: from now on choices come from the PRNG
// (crash sweeps replay a base run up to the crash point and explore freely
// afterwards).
//
//go:norace
func DropReplay() {
	s := S
	if s == nil || s.opt.Replay == nil {
		return
	}
	if !s.opt.Strict {
		s.opt.Replay = nil
	}
}

// Choose is the harness/fault-injection entry: every random decision taken
// while the episode runs goes through here so that it is on the tape.
//
//go:norace
func Choose(n int) int {
	s := S
	if s == nil || s.dead {
		return 0
	}
	return s.choose(n)
}

// Chance returns true with probability pct/100 (recorded).
//
//go:norace
func Chance(pct int) bool {
	if pct <= 0 {
		return false
	}
	if pct >= 100 {
		return true
	}
	return Choose(100) >= 100-pct // a zero choice means "no fault"
}

// Step returns the global event sequence number.
//
//go:norace
func Step() uint64 {
	if S == nil {
		return 0
	}
	return S.steps
}

// Stamp advances the sequence number without a scheduling decision (used by the
// recorder so that every logged event has a distinct number).
//
//go:norace
func Stamp() uint64 {
	if S == nil {
		return 0
	}
	S.steps++
	return S.steps
}

//go:norace
func CurTask() *Task {
	if S == nil {
		return nil
	}
	return S.cur
}

//go:norace
func CurID() int {
	if S == nil || S.cur == nil {
		return -1
	}
	return S.cur.ID
}

//go:norace
func Active() bool { return S != nil && !S.dead }

// Yield is the statement-level yield inserted by the instrumenter.
//
//go:norace
func Yield(site int32) {
	s := S
	if s == nil || s.dead {
		return
	}
	s.cur.LastSite = site
	if int(site) < len(s.siteOn) && !s.siteOn[site] {
		// a disabled site is not a preemption point, but it still counts
		// against a spin budget: a loop without any synchronisation (e.g. over
		// a corrupted list) must end the episode instead of hanging the check
		s.passive++
		if s.passive > s.spinCap {
			s.finish(VStepCap, "stepcap", "spinning without reaching a synchronisation point (last site passed many times)")
			runtime.Goexit()
		}
		return
	}
	s.yield()
}

// Y is the yield placed in front of an atomic operation: simrt.Y(site, &x).Load().
//
//go:norace
func Y[T any](site int32, p T) T {
	s := S
	if s == nil || s.dead {
		return p
	}
	s.cur.LastSite = site
	s.yield()
	return p
}

// YieldAlways is a yield that ignores the site subset (harness steps, adapters).
//
//go:norace
func YieldAlways() {
	s := S
	if s == nil || s.dead {
		return
	}
	s.yield()
}

//go:norace
func (s *Sim) yield() {
	s.schedule(false)
}

// block parks the current task until pred holds.
//
//go:norace
func (s *Sim) block(kind int, obj uintptr, pred readier) {
	t := s.cur
	t.state = tsBlocked
	t.bkind = kind
	t.bobj = obj
	t.ready = pred
	s.schedule(false)
	t.state = tsRunnable
	t.bkind = BKNone
	t.bobj = 0
	t.ready = nil
}

// Block is the generic blocking primitive for the harness.
//
//go:norace
func Block(pred func() bool) {
	s := S
	if s == nil || s.dead {
		return
	}
	if pred() {
		return
	}
	s.block(BKOther, 0, PredFunc(pred))
}

// WaitQuiescent parks the caller until no other task can run and no one-shot
// timer is pending (periodic tickers do not count; see AdvanceTime).
//
//go:norace
func WaitQuiescent() {
	s := S
	if s == nil || s.dead {
		return
	}
	t := s.cur
	t.state = tsQuiesce
	t.bkind = BKQuiesce
	s.schedule(false)
	t.state = tsRunnable
	t.bkind = BKNone
}

// schedule takes one scheduling decision.  exiting: the current goroutine is
// ending and must not park.
//
//go:norace
func (s *Sim) schedule(exiting bool) {
	if s.finished {
		if exiting {
			return
		}
		runtime.Goexit()
	}
	me := s.cur
	s.steps++
	if s.OnStep != nil {
		s.OnStep()
		if s.finished {
			if exiting {
				return
			}
			runtime.Goexit()
		}
	}
	if debugSteps && s.steps%50000 == 0 {
		println("simrt: steps", s.steps, "max", s.opt.MaxSteps, "decisions", s.decisions, "tasks", len(s.tasks), "timers", len(s.timers), "tape", len(s.tape), "now", s.now)
	}
	if s.steps > s.opt.MaxSteps {
		s.finish(VStepCap, "stepcap", "step budget exhausted")
		if exiting {
			return
		}
		runtime.Goexit()
	}
	next := s.pick(me, exiting)
	if next == nil {
		// finished inside pick
		if exiting {
			return
		}
		runtime.Goexit()
	}
	if next == me {
		return
	}
	s.Switches++
	s.Finger = (s.Finger ^ uint64(next.LastSite+1) ^ uint64(hashName(next.Name))<<20 ^ uint64(me.LastSite+1)<<40) * 0x100000001b3
	if me.Lib || next.Lib {
		s.LibSwitches++
	}
	if s.opt.TraceSwitches {
		ev := SwitchEv{Step: s.steps, From: me.ID, To: next.ID, FromSite: me.LastSite, ToSite: next.LastSite}
		if me.state == tsBlocked || me.state == tsQuiesce {
			ev.FromBlock = bkNames[me.bkind]
		} else if me.state == tsExited {
			ev.FromBlock = "exit"
		}
		s.SwitchLog = append(s.SwitchLog, ev)
	}
	next.waitSince = s.decisions
	s.cur = next
	s.passTo(next)
	if exiting {
		return
	}
	s.park(me)
}

//go:norace
func hashName(n string) uint32 {
	h := uint32(2166136261)
	for i := 0; i < len(n); i++ {
		h = (h ^ uint32(n[i])) * 16777619
	}
	return h
}

// pick computes the runnable set and chooses the next task.
//
//go:norace
func (s *Sim) pick(me *Task, exiting bool) *Task {
	for spin := 0; ; spin++ {
		if spin > 1000000 {
			panic("simrt: pick is spinning")
		}
		var run [64]*Task
		rs := run[:0]
		var quiesce *Task
		for _, t := range s.tasks {
			if s.frozen != nil && t.ID < len(s.frozen) && s.frozen[t.ID] {
				continue
			}
			switch t.state {
			case tsRunnable:
				rs = append(rs, t)
			case tsBlocked:
				if t.ready != nil && t.ready.simReady(t) {
					rs = append(rs, t)
				}
			case tsQuiesce:
				quiesce = t
			}
		}
		if len(rs) == 0 {
			// nothing can run: fire the earliest one-shot timer (and every
			// periodic tick that is due before it), else wake the quiescence
			// waiter, else the episode hangs.
			if s.advanceToOneShot() {
				continue
			}
			if quiesce != nil {
				return quiesce
			}
			s.finish(VHang, "hang", "no runnable task")
			return nil
		}
		s.decisions++
		// spontaneous tick
		// (a zero choice always means "nothing unusual": no tick, no fault)
		if s.opt.TickWeight > 0 && s.hasTicker() && s.choose(100) >= 100-s.opt.TickWeight {
			s.fireNextTicker()
			if len(s.fireQ) > 0 {
				return s.clockTask
			}
			continue
		}
		return s.choosenext(me, rs, exiting)
	}
}

//go:norace
func (s *Sim) choosenext(me *Task, rs []*Task, exiting bool) *Task {
	n := len(rs)
	// position of current task in rs (or -1)
	ci := -1
	for i, t := range rs {
		if t == me {
			ci = i
		}
	}
	// ageing: a task that has been runnable but not chosen for too long runs now
	ageLimit := uint64(64 * (len(s.tasks) + 1))
	var strategic *Task
	for _, t := range rs {
		if t != me && s.decisions-t.waitSince > ageLimit {
			if strategic == nil || t.waitSince < strategic.waitSince {
				strategic = t
			}
		}
	}
	if strategic == nil {
		switch s.opt.Strategy {
		case StratRW:
			if ci >= 0 && n > 1 && s.opt.Replay == nil && int(s.rng.next()%100) < s.opt.Stick {
				strategic = me
			} else if s.opt.Replay == nil {
				strategic = rs[int(s.rng.next()%uint64(n))]
			} else {
				strategic = rs[0]
			}
		case StratPCT:
			for _, cp := range s.pctChange {
				if cp == s.decisions && ci >= 0 {
					me.prio = int(cp % 1000) // below every initial priority
				}
			}
			for _, t := range rs {
				if strategic == nil || t.prio > strategic.prio {
					strategic = t
				}
			}
		default: // StratNP
			force := false
			for _, p := range s.npPoints {
				if p == s.decisions {
					force = true
				}
			}
			if ci >= 0 && !force {
				strategic = me
			} else if force && n > 1 && s.opt.Replay == nil {
				// any other task
				k := int(s.rng.next() % uint64(n-1))
				for _, t := range rs {
					if t == me {
						continue
					}
					if k == 0 {
						strategic = t
						break
					}
					k--
				}
			} else {
				strategic = rs[0]
				if strategic == me && n > 1 && force {
					strategic = rs[1]
				}
			}
		}
	}
	// encode relative to the current task: 0 = stay (or first runnable when
	// the current task cannot continue); k = k-th other runnable task.
	enc := 0
	if strategic != me || ci < 0 {
		k := 0
		for _, t := range rs {
			if t == me {
				continue
			}
			if t == strategic {
				break
			}
			k++
		}
		if ci >= 0 {
			enc = k + 1
		} else {
			enc = k
		}
	}
	enc = s.chooseWith(n, enc)
	// decode
	if ci >= 0 {
		if enc == 0 {
			return me
		}
		k := enc - 1
		for _, t := range rs {
			if t == me {
				continue
			}
			if k == 0 {
				return t
			}
			k--
		}
		return me
	}
	if enc < n {
		return rs[enc]
	}
	return rs[0]
}

// Go starts f as a new task.  lib tells whether the call site is library code.
//
//go:norace
func Go(name string, f func()) { goTask(name, true, f) }

//go:norace
func GoHarness(name string, f func()) *Task { return goTask(name, false, f) }

//go:norace
func goTask(name string, lib bool, f func()) *Task {
	s := S
	if s == nil {
		go f()
		return nil
	}
	if s.dead {
		return nil
	}
	t := s.newTask(name, lib)
	s.startGoroutine(t, f)
	s.yield()
	return t
}

// Tasks returns the task table (for oracles; call under the token or after Run).
//
//go:norace
func Tasks() []*Task {
	if S == nil {
		return nil
	}
	return S.tasks
}

// Freeze marks tasks as dead-by-crash: they are never scheduled again.  Used to
// simulate the death of a process incarnation (DESIGN §2.6).
//
//go:norace
func Freeze(pred func(t *Task) bool) int {
	s := S
	if s == nil {
		return 0
	}
	if s.frozen == nil {
		s.frozen = make([]bool, 0, 64)
	}
	n := 0
	for len(s.frozen) < len(s.tasks) {
		s.frozen = append(s.frozen, false)
	}
	for _, t := range s.tasks {
		if t.state != tsExited && t != s.cur && t != s.clockTask && !s.frozen[t.ID] && pred(t) {
			s.frozen[t.ID] = true
			t.Frozen = true
			n++
		}
	}
	return n
}

//go:norace
func IsFrozen(t *Task) bool {
	s := S
	return s != nil && s.frozen != nil && t.ID < len(s.frozen) && s.frozen[t.ID]
}

//go:norace
func Stats() (steps, switches, libSwitches, ticks, drops, finger uint64) {
	s := S
	if s == nil {
		return
	}
	return s.steps, s.Switches, s.LibSwitches, s.Ticks, s.PoolDrops, s.Finger
}
