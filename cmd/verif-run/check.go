package main

func runCheck(id, tier string) int { return 2 }
func runReplay(id, path string) int { return 2 }
