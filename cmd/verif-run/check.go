package main

// check / replay: spawn the shard processes, aggregate, write evidence, decide
// the exit code (DESIGN §9): 0 held (KNOWN-FINDING lines allowed), 1 VIOLATION,
// 2 infrastructure trouble (never dressed up as a violation or as a pass).

import (
	"encoding/json"
	"fmt"
	"os"
	"os/exec"
	"path/filepath"
	"sort"
	"strconv"
	"strings"
	"sync"
	"time"
)

type shardSummary struct {
	Property    string            `json:"property"`
	Shard       int               `json:"shard"`
	Episodes    int               `json:"episodes"`
	NonTrivial  int               `json:"nontrivial"`
	Fingers     []uint64          `json:"fingers"`
	Steps       uint64            `json:"steps"`
	SimTimeMs   int64             `json:"sim_time_ms"`
	Switches    uint64            `json:"switches"`
	LibSwitches uint64            `json:"lib_switches"`
	Verdicts    map[string]int    `json:"verdicts"`
	Faults      map[string]int    `json:"faults"`
	Probes      map[string]int    `json:"probes"`
	Foreign     map[string]int    `json:"foreign_clauses"`
	Viols       []violOut         `json:"violations"`
	KnownHits   map[string]int    `json:"known_hits"`
	Samples     []json.RawMessage `json:"samples"`
	Strategies  map[string]int    `json:"strategies"`
	WallS       float64           `json:"wall_s"`
	Infra       string            `json:"infra"`
	Extra       map[string]int    `json:"extra"`
	Rule        string            `json:"rule"`
}

type violOut struct {
	Clause string `json:"clause"`
	Msg    string `json:"msg"`
	Seed   uint64 `json:"seed"`
	Replay string `json:"replay"`
	Known  string `json:"known"`
}

type knownFile struct {
	Findings []struct {
		ID       string   `json:"id"`
		Status   string   `json:"status"`
		Property string   `json:"property"`
		Clauses  []string `json:"clauses"`
		Witness  string   `json:"witness"`
		Text     string   `json:"text"`
		Commit   string   `json:"commit"`
	} `json:"findings"`
}

var levelOf = map[string]string{"C11": "fault_enumeration"}

func envInt(k string, d int) int {
	if v := os.Getenv(k); v != "" {
		if n, err := strconv.Atoi(v); err == nil {
			return n
		}
	}
	return d
}

func addMap(dst, src map[string]int) {
	for k, v := range src {
		dst[k] += v
	}
}

func runCheck(id, tier string) int {
	if tier != "quick" && tier != "thorough" {
		die(2, "tier must be quick or thorough")
	}
	start := time.Now()
	seed := uint64(20261002)
	if v := os.Getenv("VERIF_SEED"); v != "" {
		if n, err := strconv.ParseUint(v, 10, 64); err == nil {
			seed = n
		} else if n2, err := strconv.ParseInt(v, 10, 64); err == nil {
			seed = uint64(n2)
		}
	}
	race := id == "C19"
	b, err := buildBinary(race)
	if err != nil {
		fmt.Printf("INFRA property=%s cannot build the simulation binary from /repo's working tree:\n%v\n", id, err)
		return 2
	}
	nshards := envInt("VERIF_SHARDS", 16)
	secs := 25
	if tier == "thorough" {
		secs = 600
	}
	if race {
		secs = secs * 2
	}
	secs = envInt("VERIF_SECS", secs)
	scratch, err := os.MkdirTemp(envOr("VERIF_SCRATCH", "/var/tmp"), "verif-run-")
	if err != nil {
		die(2, "%v", err)
	}
	defer os.RemoveAll(scratch)
	replayDir := filepath.Join(verifDir, "replays")
	os.MkdirAll(replayDir, 0o755)

	type res struct {
		shard int
		sum   *shardSummary
		err   error
		out   string
	}
	results := make([]res, nshards)
	var mu sync.Mutex
	var cmds []*exec.Cmd
	stop := false
	var wg sync.WaitGroup
	for i := 0; i < nshards; i++ {
		out := filepath.Join(scratch, fmt.Sprintf("out%d.json", i))
		args := []string{"-test.run", "^TestVerif$", "-test.timeout", "0",
			"-verif.prop", id, "-verif.tier", tier, "-verif.seed", strconv.FormatUint(seed, 10),
			"-verif.shard", strconv.Itoa(i), "-verif.nshards", strconv.Itoa(nshards),
			"-verif.secs", strconv.Itoa(secs), "-verif.out", out, "-verif.sites", b.sites, "-verif.repo", repoDir,
			"-verif.replaydir", replayDir, "-verif.known", filepath.Join(verifDir, "known_findings.json"),
			"-verif.progress", filepath.Join(scratch, fmt.Sprintf("progress%d", i))}
		if race {
			args = append(args, "-verif.racelog", filepath.Join(scratch, fmt.Sprintf("race%d", i)))
		}
		cmd := exec.Command(b.bin, args...)
		cmd.Env = append(os.Environ(), "GOMAXPROCS=1", "GOTRACEBACK=single")
		if race {
			cmd.Env = append(cmd.Env, "GORACE=halt_on_error=0 log_path="+filepath.Join(scratch, fmt.Sprintf("race%d", i)))
		}
		cmd.Dir = scratch
		mu.Lock()
		cmds = append(cmds, cmd)
		mu.Unlock()
		wg.Add(1)
		go func(i int, cmd *exec.Cmd, out string) {
			defer wg.Done()
			o, err := cmd.CombinedOutput()
			r := res{shard: i, err: err, out: string(o)}
			if bts, e := os.ReadFile(out); e == nil {
				var s shardSummary
				if json.Unmarshal(bts, &s) == nil {
					r.sum = &s
				}
			}
			mu.Lock()
			results[i] = r
			// first unknown violation: no need to keep the other shards running
			if r.sum != nil && len(r.sum.Viols) > 0 && !stop {
				stop = true
				for _, c := range cmds {
					if c != cmd && c.Process != nil {
						c.Process.Signal(os.Interrupt)
					}
				}
			}
			mu.Unlock()
		}(i, cmd, out)
	}
	// watchdog
	done := make(chan struct{})
	go func() { wg.Wait(); close(done) }()
	watchdog := time.Duration(secs)*time.Second + 4*time.Minute
	timedOut := false
	select {
	case <-done:
	case <-time.After(watchdog):
		timedOut = true
		mu.Lock()
		for _, c := range cmds {
			if c.Process != nil {
				c.Process.Kill()
			}
		}
		mu.Unlock()
		<-done
	}

	// a shard that died without a summary (killed from outside, runtime fatal
	// error) is re-run once; if it dies again the check reports INFRA
	if !timedOut {
		var wg2 sync.WaitGroup
		for i := range results {
			mu.Lock()
			dead := results[i].sum == nil && !stop
			mu.Unlock()
			if !dead {
				continue
			}
			wg2.Add(1)
			go func(i int) {
				defer wg2.Done()
				out := filepath.Join(scratch, fmt.Sprintf("out%d.json", i))
				os.Remove(out)
				cmd := exec.Command(cmds[i].Path, cmds[i].Args[1:]...)
				cmd.Env = cmds[i].Env
				cmd.Dir = scratch
				o, err := cmd.CombinedOutput()
				r := res{shard: i, err: err, out: "(second attempt) " + string(o)}
				if bts, e := os.ReadFile(out); e == nil {
					var s shardSummary
					if json.Unmarshal(bts, &s) == nil {
						r.sum = &s
					}
				}
				mu.Lock()
				results[i] = r
				mu.Unlock()
			}(i)
		}
		wg2.Wait()
	}

	agg := &shardSummary{Verdicts: map[string]int{}, Faults: map[string]int{}, Probes: map[string]int{}, Foreign: map[string]int{}, KnownHits: map[string]int{}, Strategies: map[string]int{}, Extra: map[string]int{}}
	fingers := map[uint64]bool{}
	infra := ""
	dead := 0
	for _, r := range results {
		if r.sum == nil {
			if stop {
				continue // interrupted after another shard found a violation
			}
			dead++
			tail := r.out
			if len(tail) > 1500 {
				tail = tail[len(tail)-1500:]
			}
			infra = fmt.Sprintf("shard %d ended without a summary (err=%v); last seed in %s; output tail:\n%s", r.shard, r.err, filepath.Join(scratch, fmt.Sprintf("progress%d", r.shard)), tail)
			continue
		}
		s := r.sum
		agg.Episodes += s.Episodes
		agg.NonTrivial += s.NonTrivial
		agg.Steps += s.Steps
		agg.SimTimeMs += s.SimTimeMs
		agg.Switches += s.Switches
		agg.LibSwitches += s.LibSwitches
		addMap(agg.Verdicts, s.Verdicts)
		addMap(agg.Faults, s.Faults)
		addMap(agg.Probes, s.Probes)
		addMap(agg.Foreign, s.Foreign)
		addMap(agg.KnownHits, s.KnownHits)
		addMap(agg.Strategies, s.Strategies)
		for k, v := range s.Extra {
			if strings.HasPrefix(k, "slowest_") {
				if k == "slowest_episode_ms" && v > agg.Extra[k] {
					agg.Extra[k] = v
					agg.Extra["slowest_episode_steps"] = s.Extra["slowest_episode_steps"]
					agg.Extra["slowest_episode_subs"] = s.Extra["slowest_episode_subs"]
				}
				continue
			}
			agg.Extra[k] += v
		}
		for _, f := range s.Fingers {
			fingers[f] = true
		}
		agg.Viols = append(agg.Viols, s.Viols...)
		if len(agg.Samples) < 3 {
			agg.Samples = append(agg.Samples, s.Samples...)
		}
		if s.Infra != "" {
			infra = s.Infra
		}
		if s.Rule != "" {
			rules[id] = s.Rule
		}
	}
	wall := time.Since(start).Seconds()

	// known findings of this property
	var kf knownFile
	if bts, err := os.ReadFile(filepath.Join(verifDir, "known_findings.json")); err == nil {
		json.Unmarshal(bts, &kf)
	}
	for _, k := range kf.Findings {
		if k.Property == id && k.Status == "finding" {
			fmt.Printf("KNOWN-FINDING: property=%s %s [%s] (matched by %d episodes of this run)\n", id, k.Text, k.ID, agg.KnownHits[k.ID])
		}
	}

	level := "exploration"
	if l, ok := levelOf[id]; ok {
		level = l
	}
	distinct := len(fingers)
	samples := agg.Samples
	if len(samples) == 0 {
		samples = []json.RawMessage{json.RawMessage(`{"note":"no non-trivial episode was completed in this run"}`)}
	}
	perHour := 0.0
	if wall > 0 {
		perHour = float64(agg.Episodes) / wall * 3600
	}
	ev := map[string]any{
		"property_id": id,
		"tier":        tier,
		"seed":        int64(seed & 0x7fffffffffffffff),
		"level":       level,
		"coverage": map[string]any{
			"evaluations":         agg.Episodes,
			"distinct_nontrivial": distinct,
			"rule":                ruleOf(id),
			"samples":             samples,
			"nontrivial_episodes": agg.NonTrivial,
			"scheduler_steps":     agg.Steps,
			"context_switches":    agg.Switches,
			"context_switches_involving_library_code": agg.LibSwitches,
			"simulated_time_ms":   agg.SimTimeMs,
			"episodes_per_hour":   int64(perHour),
			"shards":              nshards,
			"seconds_per_shard":   secs,
			"verdicts":            agg.Verdicts,
			"fault_kinds_fired":   agg.Faults,
			"probes":              agg.Probes,
			"strategies":          agg.Strategies,
			"clauses_of_other_properties_seen": agg.Foreign,
			"known_finding_hits":  agg.KnownHits,
			"extra":               agg.Extra,
			"real_code":           "varmq, internal/{helpers,linkedbuffer,linkedlist,pool,queues}, utils (instrumented copies of /repo's working tree), real sync/channel operations inside the wrappers",
			"stubbed":             "goroutine scheduling, time (ticker/now/sleep), sync.Pool eviction policy, external adapters (simulated persistent/distributed queues), blocking decisions of primitives",
			"race_detector":       race,
		},
		"assumptions": assumptions,
		"wall_s":      wall,
		"violations":  len(agg.Viols),
	}
	os.MkdirAll(filepath.Join(verifDir, "evidence"), 0o755)
	evb, _ := json.MarshalIndent(ev, "", " ")
	os.WriteFile(filepath.Join(verifDir, "evidence", id+".json"), evb, 0o644)

	fmt.Printf("property=%s tier=%s seed=%d episodes=%d nontrivial=%d distinct=%d steps=%d wall=%.1fs verdicts=%v\n", id, tier, seed, agg.Episodes, agg.NonTrivial, distinct, agg.Steps, wall, agg.Verdicts)
	zero := []string{}
	for k, v := range agg.Probes {
		if v == 0 {
			zero = append(zero, k)
		}
	}
	sort.Strings(zero)
	_ = strings.Join(zero, ",")
	if len(agg.Viols) > 0 {
		for _, v := range agg.Viols {
			fmt.Printf("  clause=%s seed=%d: %s\n", v.Clause, v.Seed, v.Msg)
			fmt.Printf("VIOLATION property=%s replay=%s\n", id, v.Replay)
		}
		return 1
	}
	if timedOut {
		fmt.Printf("INFRA property=%s watchdog: shards did not finish within %v\n", id, watchdog)
		return 2
	}
	if infra != "" {
		fmt.Printf("INFRA property=%s %s\n", id, infra)
		return 2
	}
	if agg.Episodes == 0 {
		fmt.Printf("INFRA property=%s no episode was executed\n", id)
		return 2
	}
	return 0
}

func runReplay(id, path string) int {
	race := id == "C19"
	b, err := buildBinary(race)
	if err != nil {
		fmt.Printf("INFRA cannot build: %v\n", err)
		return 2
	}
	abs, _ := filepath.Abs(path)
	args := []string{"-test.run", "^TestVerif$", "-test.timeout", "0", "-verif.prop", id, "-verif.mode", "replay", "-verif.replay", abs,
		"-verif.sites", b.sites, "-verif.repo", repoDir, "-verif.trace", "-verif.known", filepath.Join(verifDir, "known_findings.json")}
	env := append(os.Environ(), "GOMAXPROCS=1")
	if race {
		scratch, err := os.MkdirTemp(envOr("VERIF_SCRATCH", "/var/tmp"), "verif-replay-")
		if err != nil {
			die(2, "%v", err)
		}
		defer os.RemoveAll(scratch)
		args = append(args, "-verif.racelog", filepath.Join(scratch, "race"))
		env = append(env, "GORACE=halt_on_error=0 log_path="+filepath.Join(scratch, "race"))
	}
	cmd := exec.Command(b.bin, args...)
	cmd.Env = env
	cmd.Stdout = os.Stdout
	cmd.Stderr = os.Stderr
	if err := cmd.Run(); err != nil {
		if ee, ok := err.(*exec.ExitError); ok {
			return ee.ExitCode()
		}
		return 2
	}
	return 0
}

var assumptions = []string{
	"Go compiler, runtime and race detector are trusted; the go/ast rewriting preserves the semantics of the rewritten statements",
	"yield granularity = statements, atomic calls and synchronisation operations; interleavings inside one call-free expression and weak-memory reorderings of plain accesses are not explored (data races are C19's subject)",
	"sampling: a clean batch is evidence, not proof; the counts in this file say how much was explored",
	"code outside the simulator is not judged: real adapters (redis/sqlite), real timers, GC-driven sync.Pool behaviour (modelled by seeded drops), performance",
	"runtime.NumCPU() is read from the machine for 'concurrency < 1'",
	"bounded-liveness verdicts assume the ageing scheduler (every runnable task runs within a bounded number of decisions)",
}

func ruleOf(id string) string {
	if r, ok := rules[id]; ok {
		return r
	}
	return "episodes = (seeded configuration, seeded client program, seeded schedule/fault stream); non-trivial = at least one context switch inside library code plus the property's own trigger; distinct = hash of the context-switch site sequence, the program and the configuration"
}

var rules = map[string]string{}
