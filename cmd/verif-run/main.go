// verif-run: driver of the deterministic-simulation checks (DESIGN §9).
//
//	verif-run check <id> quick|thorough     run a property check (exit 0/1/2)
//	verif-run replay <id> <file>            replay a violation file
//	verif-run build [-race]                 instrument + build the test binary, print its path
//	verif-run instrument <outdir>           write the instrumented tree (debugging)
package main

import (
	"crypto/sha256"
	"encoding/hex"
	"encoding/json"
	"fmt"
	"io"
	"os"
	"os/exec"
	"path/filepath"
	"sort"
	"strings"
	"syscall"
	"time"
)

var (
	verifDir = envOr("VERIF_DIR", "/verif")
	repoDir  = envOr("VERIF_REPO", "/repo")
	cacheDir = envOr("VERIF_CACHE", "/var/tmp/verif-cache")
	goTool   = envOr("VERIF_GO", "go1.26.8")
)

func envOr(k, d string) string {
	if v := os.Getenv(k); v != "" {
		return v
	}
	return d
}

func goEnv() []string {
	env := os.Environ()
	env = append(env, "GOFLAGS=-mod=mod", "GOPROXY=off", "GOSUMDB=off", "GOTOOLCHAIN=local", "GONOSUMCHECK=1", "GONOSUMDB=*")
	return env
}

func die(code int, format string, a ...any) {
	fmt.Fprintf(os.Stderr, "verif-run: "+format+"\n", a...)
	os.Exit(code)
}

func main() {
	if len(os.Args) < 2 {
		die(2, "usage: verif-run check|replay|build|instrument ...")
	}
	switch os.Args[1] {
	case "instrument":
		out := os.Args[2]
		in, err := instrumentRepo(repoDir, out)
		if err != nil {
			die(2, "%v", err)
		}
		for _, p := range in.problems {
			fmt.Println("UNSUPPORTED:", p)
		}
		fmt.Printf("%d files, %d sites\n", len(in.overlay), len(in.sites))
	case "build":
		race := len(os.Args) > 2 && os.Args[2] == "-race"
		b, err := buildBinary(race)
		if err != nil {
			die(2, "%v", err)
		}
		fmt.Println(b.bin)
	case "check":
		if len(os.Args) < 4 {
			die(2, "usage: verif-run check <id> quick|thorough")
		}
		os.Exit(runCheck(os.Args[2], os.Args[3]))
	case "replay":
		if len(os.Args) < 4 {
			die(2, "usage: verif-run replay <id> <file>")
		}
		os.Exit(runReplay(os.Args[2], os.Args[3]))
	default:
		die(2, "unknown command %q", os.Args[1])
	}
}

// ---------------------------------------------------------------- build

type built struct {
	dir   string
	bin   string
	sites string
}

func hashTree(h io.Writer, root string, filter func(rel string, fi os.FileInfo) bool) error {
	var files []string
	err := filepath.Walk(root, func(p string, fi os.FileInfo, err error) error {
		if err != nil {
			return err
		}
		rel, _ := filepath.Rel(root, p)
		if fi.IsDir() {
			if rel != "." && strings.HasPrefix(filepath.Base(p), ".") {
				return filepath.SkipDir
			}
			return nil
		}
		if filter(rel, fi) {
			files = append(files, p)
		}
		return nil
	})
	if err != nil {
		return err
	}
	sort.Strings(files)
	for _, f := range files {
		b, err := os.ReadFile(f)
		if err != nil {
			return err
		}
		rel, _ := filepath.Rel(root, f)
		fmt.Fprintf(h, "%s %d\n", rel, len(b))
		h.Write(b)
	}
	return nil
}

func sourceHash(race bool) (string, error) {
	h := sha256.New()
	fmt.Fprintf(h, "race=%v go=%s\n", race, goTool)
	if err := hashTree(h, repoDir, func(rel string, fi os.FileInfo) bool {
		if strings.HasPrefix(rel, "examples/") || strings.HasPrefix(rel, "docs/") || strings.HasPrefix(rel, "assets/") {
			return false
		}
		return strings.HasSuffix(rel, ".go") || rel == "go.mod" || rel == "go.sum"
	}); err != nil {
		return "", err
	}
	for _, d := range []string{"simrt", "harness", "cmd"} {
		if err := hashTree(h, filepath.Join(verifDir, d), func(rel string, fi os.FileInfo) bool { return strings.HasSuffix(rel, ".go") }); err != nil {
			return "", err
		}
	}
	return hex.EncodeToString(h.Sum(nil))[:24], nil
}

// buildBinary instruments /repo's current working tree and builds the test
// binary.  Results are cached under cacheDir keyed by the content hash of every
// input, so an unchanged tree is built once per mode.
func buildBinary(race bool) (*built, error) {
	key, err := sourceHash(race)
	if err != nil {
		return nil, err
	}
	if err := os.MkdirAll(cacheDir, 0o755); err != nil {
		return nil, err
	}
	dir := filepath.Join(cacheDir, key)
	b := &built{dir: dir, bin: filepath.Join(dir, "varmq.test"), sites: filepath.Join(dir, "sites.json")}
	lock, err := os.OpenFile(filepath.Join(cacheDir, key+".lock"), os.O_CREATE|os.O_RDWR, 0o644)
	if err != nil {
		return nil, err
	}
	defer lock.Close()
	if err := syscall.Flock(int(lock.Fd()), syscall.LOCK_EX); err != nil {
		return nil, err
	}
	defer syscall.Flock(int(lock.Fd()), syscall.LOCK_UN)
	if _, err := os.Stat(filepath.Join(dir, "ok")); err == nil {
		now := time.Now()
		os.Chtimes(filepath.Join(dir, "ok"), now, now)
		return b, nil
	}
	os.RemoveAll(dir)
	if err := os.MkdirAll(dir, 0o755); err != nil {
		return nil, err
	}
	pruneCache(key)
	in, err := instrumentRepo(repoDir, dir)
	if err != nil {
		return nil, fmt.Errorf("instrument: %w", err)
	}
	if len(in.problems) > 0 {
		return nil, fmt.Errorf("the tree uses constructs the simulator cannot control:\n  %s", strings.Join(in.problems, "\n  "))
	}
	overlay := map[string]string{}
	for k, v := range in.overlay {
		overlay[k] = v
	}
	// the repository's own test files of the root package are not part of the
	// simulation binary (they use the real sync types)
	if ents, err := os.ReadDir(repoDir); err == nil {
		for _, e := range ents {
			if strings.HasSuffix(e.Name(), "_test.go") {
				overlay[filepath.Join(repoDir, e.Name())] = ""
			}
		}
	}
	// simrt package
	ents, _ := os.ReadDir(filepath.Join(verifDir, "simrt"))
	for _, e := range ents {
		n := e.Name()
		if !strings.HasSuffix(n, ".go") || strings.HasSuffix(n, "_test.go") {
			continue
		}
		overlay[filepath.Join(repoDir, "internal", "simrt", n)] = filepath.Join(verifDir, "simrt", n)
	}
	// harness: in-package test files, every top-level func made norace
	ents, _ = os.ReadDir(filepath.Join(verifDir, "harness"))
	for _, e := range ents {
		n := e.Name()
		if !strings.HasSuffix(n, ".go") {
			continue
		}
		src, err := os.ReadFile(filepath.Join(verifDir, "harness", n))
		if err != nil {
			return nil, err
		}
		dst := filepath.Join(dir, "harness", "zz_verif_"+strings.TrimSuffix(n, ".go")+"_test.go")
		os.MkdirAll(filepath.Dir(dst), 0o755)
		if err := os.WriteFile(dst, addNorace(src), 0o644); err != nil {
			return nil, err
		}
		overlay[filepath.Join(repoDir, filepath.Base(dst))] = dst
	}
	// knobs for the FIFO chunk capacities
	knobs := "package queues\n\n// VerifSetCaps is added by the verification overlay.\nfunc VerifSetCaps(initial, max int) (int, int) {\n"
	qsrc, _ := os.ReadFile(filepath.Join(repoDir, "internal", "queues", "queue.go"))
	if strings.Contains(string(qsrc), "initialBufferCapacity") && strings.Contains(string(qsrc), "chunkMaxCapacity") {
		knobs += "\toi, om := initialBufferCapacity, chunkMaxCapacity\n\tif initial > 0 {\n\t\tinitialBufferCapacity = initial\n\t}\n\tif max > 0 {\n\t\tchunkMaxCapacity = max\n\t}\n\treturn oi, om\n}\n"
	} else {
		knobs += "\treturn 0, 0\n}\n"
	}
	kp := filepath.Join(dir, "knobs.go")
	os.WriteFile(kp, []byte(knobs), 0o644)
	overlay[filepath.Join(repoDir, "internal", "queues", "zz_verif_knobs.go")] = kp

	ov, _ := json.MarshalIndent(map[string]any{"Replace": overlay}, "", " ")
	ovPath := filepath.Join(dir, "overlay.json")
	os.WriteFile(ovPath, ov, 0o644)
	sj, _ := json.Marshal(in.sites)
	os.WriteFile(b.sites, sj, 0o644)

	// modfile with porcupine
	gomod, err := os.ReadFile(filepath.Join(repoDir, "go.mod"))
	if err != nil {
		return nil, err
	}
	mod := string(gomod) + "\nrequire github.com/anishathalye/porcupine v1.3.0\n"
	modPath := filepath.Join(dir, "go.mod")
	os.WriteFile(modPath, []byte(mod), 0o644)
	gosum, _ := os.ReadFile(filepath.Join(repoDir, "go.sum"))
	os.WriteFile(filepath.Join(dir, "go.sum"), gosum, 0o644)

	args := []string{"test", "-c", "-overlay=" + ovPath, "-modfile=" + modPath, "-vet=off", "-o", b.bin}
	if race {
		args = append(args, "-race")
	}
	args = append(args, ".")
	cmd := exec.Command(goTool, args...)
	cmd.Dir = repoDir
	cmd.Env = goEnv()
	out, err := cmd.CombinedOutput()
	if err != nil {
		os.WriteFile(filepath.Join(dir, "build.log"), out, 0o644)
		return nil, fmt.Errorf("go test -c failed:\n%s", out)
	}
	os.WriteFile(filepath.Join(dir, "ok"), nil, 0o644)
	return b, nil
}

// addNorace puts //go:norace in front of every top-level function of a harness
// file (closures do not inherit it: harness closures only call methods).
func addNorace(src []byte) []byte {
	lines := strings.Split(string(src), "\n")
	var out []string
	for i, l := range lines {
		if strings.HasPrefix(l, "func ") {
			prev := ""
			if i > 0 {
				prev = lines[i-1]
			}
			if !strings.HasPrefix(prev, "//go:norace") {
				out = append(out, "//go:norace")
			}
		}
		out = append(out, l)
	}
	return []byte(strings.Join(out, "\n"))
}

// pruneCache keeps the cache small: only the 4 most recently used builds stay.
func pruneCache(keep string) {
	ents, err := os.ReadDir(cacheDir)
	if err != nil {
		return
	}
	type ent struct {
		name string
		t    time.Time
	}
	var es []ent
	for _, e := range ents {
		if !e.IsDir() || e.Name() == keep {
			continue
		}
		t := time.Time{}
		if fi, err := os.Stat(filepath.Join(cacheDir, e.Name(), "ok")); err == nil {
			t = fi.ModTime()
		} else if time.Since(modTime(filepath.Join(cacheDir, e.Name()))) < 10*time.Minute {
			continue // probably being built by another process
		}
		es = append(es, ent{e.Name(), t})
	}
	sort.Slice(es, func(i, j int) bool { return es[i].t.After(es[j].t) })
	for i, e := range es {
		if i >= 3 {
			os.RemoveAll(filepath.Join(cacheDir, e.name))
			os.Remove(filepath.Join(cacheDir, e.name+".lock"))
		}
	}
}

func modTime(p string) time.Time {
	fi, err := os.Stat(p)
	if err != nil {
		return time.Time{}
	}
	return fi.ModTime()
}
