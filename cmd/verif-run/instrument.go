package main

// Source instrumenter (DESIGN §3): rewrites the non-test Go files of the
// library so that every scheduling-relevant operation passes through simrt.
// Output goes to a scratch directory and is injected with `go test -overlay`;
// nothing is written to /repo.

import (
	"bytes"
	"fmt"
	"go/ast"
	"go/importer"
	"go/parser"
	"go/printer"
	"go/token"
	"go/types"
	"os"
	"path/filepath"
	"sort"
	"strconv"
	"strings"
)

const simrtPath = "github.com/goptics/varmq/internal/simrt"

type Site struct {
	ID   int    `json:"id"`
	File string `json:"file"`
	Line int    `json:"line"`
	Func string `json:"func"`
	Kind string `json:"kind"`
}

type instrumenter struct {
	repo     string
	out      string
	fset     *token.FileSet
	sites    []Site
	overlay  map[string]string
	problems []string
	// per file / function state
	info    *types.Info
	curFile string
	curFunc string
	tmpN    int
	usesSim bool
	wrapped map[*ast.CallExpr]bool
	std     types.Importer
	pkgs    map[string]*types.Package
	dirs    map[string]bool
}

var syncSubst = map[string]bool{"Mutex": true, "RWMutex": true, "WaitGroup": true, "Cond": true, "NewCond": true, "Once": true, "Pool": true}
var syncKeep = map[string]bool{"Locker": true}
var timeSubst = map[string]bool{"Now": true, "Since": true, "Until": true, "Sleep": true, "NewTicker": true, "Ticker": true, "NewTimer": true, "Timer": true, "After": true, "AfterFunc": true, "Tick": true}

var bannedImports = []string{"net", "net/", "os/exec", "os/signal", "math/rand", "math/rand/v2", "crypto/rand", "syscall", "plugin", "C"}
var bannedSelectors = map[string]bool{
	"runtime.Gosched": true, "runtime.GC": true, "runtime.LockOSThread": true, "runtime.SetFinalizer": true,
	"reflect.Select": true, "context.WithTimeout": true, "context.WithDeadline": true, "context.WithTimeoutCause": true,
	"context.WithDeadlineCause": true, "context.AfterFunc": true, "os.Exit": true, "os.Getenv": true,
}

// libDirs lists the package directories (relative to repo) to instrument.
func libDirs(repo string) ([]string, error) {
	var dirs []string
	err := filepath.Walk(repo, func(p string, fi os.FileInfo, err error) error {
		if err != nil {
			return err
		}
		if !fi.IsDir() {
			return nil
		}
		rel, _ := filepath.Rel(repo, p)
		base := filepath.Base(p)
		if rel != "." && (strings.HasPrefix(base, ".") || base == "examples" || base == "mocks" || base == "testdata" || base == "assets" || base == "docs" || base == "simrt") {
			return filepath.SkipDir
		}
		if rel != "." {
			if _, e := os.Stat(filepath.Join(p, "go.mod")); e == nil {
				return filepath.SkipDir
			}
		}
		ents, _ := os.ReadDir(p)
		for _, e := range ents {
			n := e.Name()
			if strings.HasSuffix(n, ".go") && !strings.HasSuffix(n, "_test.go") {
				dirs = append(dirs, rel)
				break
			}
		}
		return nil
	})
	sort.Strings(dirs)
	return dirs, err
}

func instrumentRepo(repo, out string) (*instrumenter, error) {
	in := &instrumenter{repo: repo, out: out, fset: token.NewFileSet(), overlay: map[string]string{}, wrapped: map[*ast.CallExpr]bool{}}
	dirs, err := libDirs(repo)
	if err != nil {
		return nil, err
	}
	in.std = importer.ForCompiler(in.fset, "source", nil)
	in.pkgs = map[string]*types.Package{}
	in.dirs = map[string]bool{}
	for _, d := range dirs {
		in.dirs[d] = true
	}
	for _, d := range dirs {
		if _, err := in.doPackage(d); err != nil {
			return nil, err
		}
	}
	return in, nil
}

const modPath = "github.com/goptics/varmq"

// Import resolves module-internal packages from the tree being instrumented
// and everything else (the standard library) from source.
func (in *instrumenter) Import(path string) (*types.Package, error) {
	if path == modPath || strings.HasPrefix(path, modPath+"/") {
		rel := strings.TrimPrefix(strings.TrimPrefix(path, modPath), "/")
		if rel == "" {
			rel = "."
		}
		if !in.dirs[rel] {
			return nil, fmt.Errorf("package %s is not part of the instrumented tree", path)
		}
		return in.doPackage(rel)
	}
	return in.std.Import(path)
}

func (in *instrumenter) problem(pos token.Pos, format string, a ...any) {
	p := in.fset.Position(pos)
	in.problems = append(in.problems, fmt.Sprintf("%s:%d: %s", p.Filename, p.Line, fmt.Sprintf(format, a...)))
}

func (in *instrumenter) doPackage(rel string) (*types.Package, error) {
	if p, ok := in.pkgs[rel]; ok {
		return p, nil
	}
	p, err := in.doPackage1(rel)
	if err == nil {
		in.pkgs[rel] = p
	}
	return p, err
}

func (in *instrumenter) doPackage1(rel string) (*types.Package, error) {
	dir := filepath.Join(in.repo, rel)
	ents, err := os.ReadDir(dir)
	if err != nil {
		return nil, err
	}
	var files []*ast.File
	var names []string
	for _, e := range ents {
		n := e.Name()
		if !strings.HasSuffix(n, ".go") || strings.HasSuffix(n, "_test.go") {
			continue
		}
		f, err := parser.ParseFile(in.fset, filepath.Join(dir, n), nil, parser.ParseComments)
		if err != nil {
			return nil, fmt.Errorf("parse: %w", err)
		}
		files = append(files, f)
		names = append(names, n)
	}
	if len(files) == 0 {
		return nil, fmt.Errorf("no Go files in %s", rel)
	}
	info := &types.Info{
		Types:      map[ast.Expr]types.TypeAndValue{},
		Uses:       map[*ast.Ident]types.Object{},
		Defs:       map[*ast.Ident]types.Object{},
		Selections: map[*ast.SelectorExpr]*types.Selection{},
	}
	conf := types.Config{Importer: in, Error: func(err error) {}}
	pkgPath := "github.com/goptics/varmq"
	if rel != "." {
		pkgPath += "/" + filepath.ToSlash(rel)
	}
	pkg, err := conf.Check(pkgPath, in.fset, files, info)
	if err != nil {
		return nil, fmt.Errorf("typecheck %s: %w", rel, err)
	}
	in.info = info
	for i, f := range files {
		in.curFile = filepath.ToSlash(filepath.Join(rel, names[i]))
		src, err := in.doFile(f)
		if err != nil {
			return nil, err
		}
		dst := filepath.Join(in.out, "src", rel, names[i])
		if err := os.MkdirAll(filepath.Dir(dst), 0o755); err != nil {
			return nil, err
		}
		if err := os.WriteFile(dst, src, 0o644); err != nil {
			return nil, err
		}
		in.overlay[filepath.Join(dir, names[i])] = dst
	}
	return pkg, nil
}

func (in *instrumenter) newSite(pos token.Pos, kind string) ast.Expr {
	p := in.fset.Position(pos)
	id := len(in.sites) + 1
	in.sites = append(in.sites, Site{ID: id, File: in.curFile, Line: p.Line, Func: in.curFunc, Kind: kind})
	return &ast.BasicLit{Kind: token.INT, Value: strconv.Itoa(id)}
}

func simCall(name string, args ...ast.Expr) *ast.CallExpr {
	return &ast.CallExpr{Fun: &ast.SelectorExpr{X: ast.NewIdent("simrt"), Sel: ast.NewIdent(name)}, Args: args}
}

func (in *instrumenter) tmp(prefix string) *ast.Ident {
	in.tmpN++
	return ast.NewIdent(fmt.Sprintf("__%s%d", prefix, in.tmpN))
}

func (in *instrumenter) pkgOf(id *ast.Ident) string {
	if obj, ok := in.info.Uses[id]; ok {
		if pn, ok := obj.(*types.PkgName); ok {
			return pn.Imported().Path()
		}
	}
	return ""
}

func (in *instrumenter) isChan(e ast.Expr) bool {
	if tv, ok := in.info.Types[e]; ok && tv.Type != nil {
		_, ok := tv.Type.Underlying().(*types.Chan)
		if ok {
			return true
		}
		// type parameter constrained to channels: treat core type
		if tp, ok := tv.Type.(*types.TypeParam); ok {
			if u := tp.Underlying(); u != nil {
				_ = u
			}
		}
	}
	return false
}

func (in *instrumenter) isMap(e ast.Expr) bool {
	if tv, ok := in.info.Types[e]; ok && tv.Type != nil {
		_, ok := tv.Type.Underlying().(*types.Map)
		return ok
	}
	return false
}

func (in *instrumenter) doFile(f *ast.File) ([]byte, error) {
	in.usesSim = false
	// banned imports
	for _, im := range f.Imports {
		p, _ := strconv.Unquote(im.Path.Value)
		for _, b := range bannedImports {
			if p == b || (strings.HasSuffix(b, "/") && strings.HasPrefix(p, b)) {
				in.problem(im.Pos(), "import %q is outside what the simulator controls", p)
			}
		}
	}
	// 1. selector substitution and banned selectors
	ast.Inspect(f, func(n ast.Node) bool {
		se, ok := n.(*ast.SelectorExpr)
		if !ok {
			return true
		}
		id, ok := se.X.(*ast.Ident)
		if !ok {
			return true
		}
		switch pkg := in.pkgOf(id); pkg {
		case "sync":
			if syncSubst[se.Sel.Name] {
				se.X = ast.NewIdent("simrt")
				in.usesSim = true
			} else if !syncKeep[se.Sel.Name] {
				in.problem(se.Pos(), "sync.%s is not simulated", se.Sel.Name)
			}
		case "time":
			if timeSubst[se.Sel.Name] {
				se.X = ast.NewIdent("simrt")
				in.usesSim = true
			}
		default:
			if pkg != "" && bannedSelectors[pkg+"."+se.Sel.Name] {
				in.problem(se.Pos(), "%s.%s is outside what the simulator controls", pkg, se.Sel.Name)
			}
		}
		return true
	})
	// 2. function bodies
	for _, d := range f.Decls {
		fd, ok := d.(*ast.FuncDecl)
		if !ok || fd.Body == nil {
			continue
		}
		in.curFunc = fd.Name.Name
		if fd.Recv != nil && len(fd.Recv.List) > 0 {
			in.curFunc = recvName(fd.Recv.List[0].Type) + "." + fd.Name.Name
		}
		in.tmpN = 0
		fd.Body.List = in.rewriteList(fd.Body.List)
	}
	// package-level var initialisers with func literals
	for _, d := range f.Decls {
		if gd, ok := d.(*ast.GenDecl); ok && gd.Tok == token.VAR {
			in.curFunc = "init"
			ast.Inspect(gd, func(n ast.Node) bool {
				if fl, ok := n.(*ast.FuncLit); ok {
					fl.Body.List = in.rewriteList(fl.Body.List)
					return false
				}
				return true
			})
		}
	}
	// 3. imports
	if in.usesSim {
		addImport(f, simrtPath)
	}
	for _, p := range []string{"sync", "time", "sync/atomic"} {
		if !usesPkgName(f, importName(f, p)) {
			removeImport(f, p)
		}
	}
	// 4. print: header directives + decls one by one (comments are dropped;
	// function-level //go: directives are re-emitted)
	var buf bytes.Buffer
	for _, cg := range f.Comments {
		if cg.End() >= f.Package {
			break
		}
		for _, c := range cg.List {
			if strings.HasPrefix(c.Text, "//go:build") || strings.HasPrefix(c.Text, "// +build") {
				buf.WriteString(c.Text + "\n")
			}
		}
	}
	fmt.Fprintf(&buf, "\n// Code generated by verif-instrument from %s; DO NOT EDIT.\n\npackage %s\n\n", in.curFile, f.Name.Name)
	cfg := printer.Config{Mode: printer.UseSpaces | printer.TabIndent, Tabwidth: 8}
	for _, d := range f.Decls {
		if fd, ok := d.(*ast.FuncDecl); ok {
			if fd.Doc != nil {
				for _, c := range fd.Doc.List {
					if strings.HasPrefix(c.Text, "//go:") {
						buf.WriteString(c.Text + "\n")
					}
				}
			}
			fd.Doc = nil
		}
		if gd, ok := d.(*ast.GenDecl); ok {
			gd.Doc = nil
		}
		stripComments(d)
		if err := cfg.Fprint(&buf, token.NewFileSet(), d); err != nil {
			return nil, err
		}
		buf.WriteString("\n\n")
	}
	return buf.Bytes(), nil
}

func stripComments(n ast.Node) {
	ast.Inspect(n, func(n ast.Node) bool {
		switch x := n.(type) {
		case *ast.Field:
			x.Doc, x.Comment = nil, nil
		case *ast.ValueSpec:
			x.Doc, x.Comment = nil, nil
		case *ast.TypeSpec:
			x.Doc, x.Comment = nil, nil
		case *ast.ImportSpec:
			x.Doc, x.Comment = nil, nil
		}
		return true
	})
}

func recvName(e ast.Expr) string {
	switch x := e.(type) {
	case *ast.StarExpr:
		return recvName(x.X)
	case *ast.IndexExpr:
		return recvName(x.X)
	case *ast.IndexListExpr:
		return recvName(x.X)
	case *ast.Ident:
		return x.Name
	}
	return "?"
}

func importName(f *ast.File, path string) string {
	for _, im := range f.Imports {
		p, _ := strconv.Unquote(im.Path.Value)
		if p == path {
			if im.Name != nil {
				return im.Name.Name
			}
			return filepath.Base(path)
		}
	}
	return ""
}

func usesPkgName(f *ast.File, name string) bool {
	if name == "" || name == "_" || name == "." {
		return true
	}
	used := false
	ast.Inspect(f, func(n ast.Node) bool {
		if se, ok := n.(*ast.SelectorExpr); ok {
			if id, ok := se.X.(*ast.Ident); ok && id.Name == name && id.Obj == nil {
				used = true
			}
		}
		return !used
	})
	return used
}

func addImport(f *ast.File, path string) {
	spec := &ast.ImportSpec{Path: &ast.BasicLit{Kind: token.STRING, Value: strconv.Quote(path)}}
	for _, d := range f.Decls {
		if gd, ok := d.(*ast.GenDecl); ok && gd.Tok == token.IMPORT {
			gd.Specs = append(gd.Specs, spec)
			gd.Lparen = 1
			gd.Rparen = 1
			f.Imports = append(f.Imports, spec)
			return
		}
	}
	gd := &ast.GenDecl{Tok: token.IMPORT, Specs: []ast.Spec{spec}}
	f.Decls = append([]ast.Decl{gd}, f.Decls...)
	f.Imports = append(f.Imports, spec)
}

func removeImport(f *ast.File, path string) {
	for _, d := range f.Decls {
		gd, ok := d.(*ast.GenDecl)
		if !ok || gd.Tok != token.IMPORT {
			continue
		}
		var keep []ast.Spec
		for _, s := range gd.Specs {
			p, _ := strconv.Unquote(s.(*ast.ImportSpec).Path.Value)
			if p != path {
				keep = append(keep, s)
			}
		}
		gd.Specs = keep
	}
	// drop empty import decls
	var decls []ast.Decl
	for _, d := range f.Decls {
		if gd, ok := d.(*ast.GenDecl); ok && gd.Tok == token.IMPORT && len(gd.Specs) == 0 {
			continue
		}
		decls = append(decls, d)
	}
	f.Decls = decls
}

// ---------------------------------------------------------------- statements

func (in *instrumenter) rewriteList(list []ast.Stmt) []ast.Stmt {
	var out []ast.Stmt
	for _, st := range list {
		out = append(out, in.rewriteStmt(st, true)...)
	}
	return out
}

func (in *instrumenter) yieldStmt(pos token.Pos) ast.Stmt {
	in.usesSim = true
	return &ast.ExprStmt{X: simCall("Yield", in.newSite(pos, "stmt"))}
}

// rewriteStmt returns the statements that replace st.  withYield: prefix a
// statement-level yield.
func (in *instrumenter) rewriteStmt(st ast.Stmt, withYield bool) []ast.Stmt {
	var pre []ast.Stmt
	if withYield {
		switch st.(type) {
		case *ast.LabeledStmt, *ast.EmptyStmt:
		default:
			pre = append(pre, in.yieldStmt(st.Pos()))
		}
	}
	switch s := st.(type) {
	case *ast.LabeledStmt:
		inner := in.rewriteStmt(s.Stmt, true)
		// the label must stay on the last statement (the loop/switch itself)
		last := inner[len(inner)-1]
		s.Stmt = last
		return append(append(pre, inner[:len(inner)-1]...), s)
	case *ast.BlockStmt:
		s.List = in.rewriteList(s.List)
		return append(pre, s)
	case *ast.IfStmt:
		if s.Init != nil {
			pre = append(pre, in.hoistRecv(s.Init)...)
			in.exprs(s.Init)
		}
		pre = append(pre, in.hoistRecvExpr(&s.Cond)...)
		s.Cond = in.expr(s.Cond)
		s.Body.List = in.rewriteList(s.Body.List)
		if s.Else != nil {
			e := in.rewriteStmt(s.Else, false)
			if len(e) == 1 {
				s.Else = e[0]
			} else {
				s.Else = &ast.BlockStmt{List: e}
			}
		}
		return append(pre, s)
	case *ast.ForStmt:
		if s.Init != nil {
			pre = append(pre, in.hoistRecv(s.Init)...)
			in.exprs(s.Init)
		}
		if s.Cond != nil {
			if hasRecv(s.Cond) {
				in.problem(s.Cond.Pos(), "channel receive in a loop condition is not supported")
			}
			s.Cond = in.expr(s.Cond)
		}
		if s.Post != nil {
			if hasRecvStmt(s.Post) {
				in.problem(s.Post.Pos(), "channel receive in a loop post statement is not supported")
			}
			in.exprs(s.Post)
		}
		s.Body.List = in.rewriteList(s.Body.List)
		return append(pre, s)
	case *ast.RangeStmt:
		if in.isChan(s.X) {
			return append(pre, in.rangeChan(s)...)
		}
		if in.isMap(s.X) {
			in.problem(s.Pos(), "range over a map has nondeterministic order")
		}
		pre = append(pre, in.hoistRecvExpr(&s.X)...)
		s.X = in.expr(s.X)
		s.Body.List = in.rewriteList(s.Body.List)
		return append(pre, s)
	case *ast.SwitchStmt:
		if s.Init != nil {
			pre = append(pre, in.hoistRecv(s.Init)...)
			in.exprs(s.Init)
		}
		if s.Tag != nil {
			pre = append(pre, in.hoistRecvExpr(&s.Tag)...)
			s.Tag = in.expr(s.Tag)
		}
		for _, c := range s.Body.List {
			cc := c.(*ast.CaseClause)
			for i := range cc.List {
				cc.List[i] = in.expr(cc.List[i])
			}
			cc.Body = in.rewriteList(cc.Body)
		}
		return append(pre, s)
	case *ast.TypeSwitchStmt:
		if s.Init != nil {
			pre = append(pre, in.hoistRecv(s.Init)...)
			in.exprs(s.Init)
		}
		in.exprs(s.Assign)
		for _, c := range s.Body.List {
			cc := c.(*ast.CaseClause)
			cc.Body = in.rewriteList(cc.Body)
		}
		return append(pre, s)
	case *ast.SelectStmt:
		return append(pre, in.selectStmt(s)...)
	case *ast.GoStmt:
		return append(pre, in.goStmt(s))
	case *ast.SendStmt:
		in.usesSim = true
		c := in.tmp("c")
		pre = append(pre, in.hoistRecvExpr(&s.Value)...)
		s.Value = in.expr(s.Value)
		ch := in.expr(s.Chan)
		s.Chan = c
		return append(pre,
			&ast.AssignStmt{Lhs: []ast.Expr{c}, Tok: token.DEFINE, Rhs: []ast.Expr{ch}},
			&ast.ExprStmt{X: simCall("SendWait", c)},
			s)
	case *ast.DeferStmt:
		if id, ok := s.Call.Fun.(*ast.Ident); ok && id.Name == "close" && in.isBuiltin(id) && len(s.Call.Args) == 1 {
			in.usesSim = true
			c := in.tmp("c")
			ch := in.expr(s.Call.Args[0])
			body := []ast.Stmt{&ast.ExprStmt{X: simCall("Close", c)}, &ast.ExprStmt{X: &ast.CallExpr{Fun: ast.NewIdent("close"), Args: []ast.Expr{c}}}}
			s.Call = &ast.CallExpr{Fun: &ast.FuncLit{Type: &ast.FuncType{Params: &ast.FieldList{}}, Body: &ast.BlockStmt{List: body}}}
			return append(pre, &ast.AssignStmt{Lhs: []ast.Expr{c}, Tok: token.DEFINE, Rhs: []ast.Expr{ch}}, s)
		}
		pre = append(pre, in.hoistRecvCallArgs(s.Call)...)
		s.Call = in.expr(s.Call).(*ast.CallExpr)
		return append(pre, s)
	case *ast.ExprStmt:
		if call, ok := s.X.(*ast.CallExpr); ok {
			if id, ok := call.Fun.(*ast.Ident); ok && id.Name == "close" && in.isBuiltin(id) && len(call.Args) == 1 {
				in.usesSim = true
				c := in.tmp("c")
				ch := in.expr(call.Args[0])
				call.Args[0] = c
				return append(pre,
					&ast.AssignStmt{Lhs: []ast.Expr{c}, Tok: token.DEFINE, Rhs: []ast.Expr{ch}},
					&ast.ExprStmt{X: simCall("Close", c)},
					s)
			}
		}
		pre = append(pre, in.hoistRecvExpr(&s.X)...)
		s.X = in.expr(s.X)
		return append(pre, s)
	default:
		// assign, decl, return, incdec, branch, empty
		pre = append(pre, in.hoistRecv(st)...)
		in.exprs(st)
		return append(pre, st)
	}
}

func (in *instrumenter) isBuiltin(id *ast.Ident) bool {
	if obj, ok := in.info.Uses[id]; ok {
		_, b := obj.(*types.Builtin)
		return b
	}
	return true
}

// exprs rewrites the expressions directly contained in a simple statement.
func (in *instrumenter) exprs(st ast.Stmt) {
	switch s := st.(type) {
	case *ast.AssignStmt:
		for i := range s.Lhs {
			s.Lhs[i] = in.expr(s.Lhs[i])
		}
		for i := range s.Rhs {
			s.Rhs[i] = in.expr(s.Rhs[i])
		}
	case *ast.ReturnStmt:
		for i := range s.Results {
			s.Results[i] = in.expr(s.Results[i])
		}
	case *ast.IncDecStmt:
		s.X = in.expr(s.X)
	case *ast.ExprStmt:
		s.X = in.expr(s.X)
	case *ast.DeclStmt:
		if gd, ok := s.Decl.(*ast.GenDecl); ok {
			for _, sp := range gd.Specs {
				if vs, ok := sp.(*ast.ValueSpec); ok {
					for i := range vs.Values {
						vs.Values[i] = in.expr(vs.Values[i])
					}
				}
			}
		}
	case *ast.SendStmt:
		in.problem(s.Pos(), "send statement in an init/post position is not supported")
	}
}

// hasCall: does the expression contain a call (conversions and builtins included: cheap
// over-approximation, constants are filtered by the caller)?
func (in *instrumenter) hasCall(e ast.Expr) bool {
	found := false
	ast.Inspect(e, func(n ast.Node) bool {
		if _, ok := n.(*ast.CallExpr); ok {
			found = true
		}
		return !found
	})
	return found
}

// expr rewrites an expression: atomic calls get a yield in front, function
// literals are instrumented recursively.
func (in *instrumenter) expr(e ast.Expr) ast.Expr {
	if e == nil {
		return nil
	}
	switch x := e.(type) {
	case *ast.FuncLit:
		saved := in.curFunc
		in.curFunc = saved + ".func"
		x.Body.List = in.rewriteList(x.Body.List)
		in.curFunc = saved
		return x
	case *ast.CallExpr:
		for i := range x.Args {
			x.Args[i] = in.expr(x.Args[i])
		}
		if in.wrapped[x] {
			return x
		}
		// atomic method: recv.Method(args) where Method belongs to sync/atomic
		if se, ok := x.Fun.(*ast.SelectorExpr); ok {
			if sel, ok := in.info.Selections[se]; ok && sel.Kind() == types.MethodVal {
				if fn, ok := sel.Obj().(*types.Func); ok && fn.Pkg() != nil && fn.Pkg().Path() == "sync/atomic" {
					in.usesSim = true
					recv := in.expr(se.X)
					// pointer receiver: take the address unless already a pointer
					if _, isPtr := in.info.Types[se.X].Type.Underlying().(*types.Pointer); !isPtr {
						recv = &ast.UnaryExpr{Op: token.AND, X: recv}
					}
					se.X = simCall("Y", in.newSite(x.Pos(), "atomic:"+fn.Name()), recv)
					// arguments that are computed by further calls (x.Store(a | x.Load()&m)) are
					// evaluated after the yield above: one more yield between the last argument
					// and the operation itself, or a load-then-store of the same word would
					// look atomic
					if n := len(x.Args); n > 0 && in.hasCall(x.Args[n-1]) {
						if tv, ok := in.info.Types[x.Args[n-1]]; !ok || tv.Value == nil {
							x.Args[n-1] = simCall("Y", in.newSite(x.Pos(), "atomic-args:"+fn.Name()), x.Args[n-1])
						}
					}
					in.wrapped[x] = true
					return x
				}
			}
			// package-level atomic function: atomic.AddInt32(&x, 1)
			if id, ok := se.X.(*ast.Ident); ok && in.pkgOf(id) == "sync/atomic" && len(x.Args) > 0 {
				if _, isFunc := in.info.Uses[se.Sel].(*types.Func); isFunc {
					in.usesSim = true
					x.Args[0] = simCall("Y", in.newSite(x.Pos(), "atomic:"+se.Sel.Name), x.Args[0])
					in.wrapped[x] = true
					return x
				}
			}
			se.X = in.expr(se.X)
			return x
		}
		x.Fun = in.expr(x.Fun)
		return x
	case *ast.ParenExpr:
		x.X = in.expr(x.X)
	case *ast.SelectorExpr:
		x.X = in.expr(x.X)
	case *ast.IndexExpr:
		x.X = in.expr(x.X)
		x.Index = in.expr(x.Index)
	case *ast.SliceExpr:
		x.X = in.expr(x.X)
		x.Low, x.High, x.Max = in.expr(x.Low), in.expr(x.High), in.expr(x.Max)
	case *ast.StarExpr:
		x.X = in.expr(x.X)
	case *ast.UnaryExpr:
		x.X = in.expr(x.X)
	case *ast.BinaryExpr:
		x.X = in.expr(x.X)
		x.Y = in.expr(x.Y)
	case *ast.KeyValueExpr:
		x.Value = in.expr(x.Value)
	case *ast.CompositeLit:
		for i := range x.Elts {
			x.Elts[i] = in.expr(x.Elts[i])
		}
	case *ast.TypeAssertExpr:
		x.X = in.expr(x.X)
	}
	return e
}

// ---------------------------------------------------------------- receives

func hasRecv(e ast.Expr) bool {
	found := false
	ast.Inspect(e, func(n ast.Node) bool {
		switch x := n.(type) {
		case *ast.FuncLit:
			return false
		case *ast.UnaryExpr:
			if x.Op == token.ARROW {
				found = true
			}
		}
		return !found
	})
	return found
}

func hasRecvStmt(s ast.Stmt) bool {
	found := false
	ast.Inspect(s, func(n ast.Node) bool {
		switch x := n.(type) {
		case *ast.FuncLit:
			return false
		case *ast.UnaryExpr:
			if x.Op == token.ARROW {
				found = true
			}
		}
		return !found
	})
	return found
}

// hoistRecvExpr binds the channel of every receive inside *e to a temporary,
// emits RecvWait for it and returns the statements to put in front.
func (in *instrumenter) hoistRecvExpr(e *ast.Expr) []ast.Stmt {
	if e == nil || *e == nil || !hasRecv(*e) {
		return nil
	}
	var pre []ast.Stmt
	var walk func(n ast.Node) bool
	walk = func(n ast.Node) bool {
		switch x := n.(type) {
		case *ast.FuncLit:
			return false
		case *ast.UnaryExpr:
			if x.Op == token.ARROW {
				// inner receives first
				ast.Inspect(x.X, walk)
				in.usesSim = true
				c := in.tmp("c")
				pre = append(pre,
					&ast.AssignStmt{Lhs: []ast.Expr{c}, Tok: token.DEFINE, Rhs: []ast.Expr{in.expr(x.X)}},
					&ast.ExprStmt{X: simCall("RecvWait", c)})
				x.X = c
				return false
			}
		}
		return true
	}
	ast.Inspect(*e, walk)
	return pre
}

func (in *instrumenter) hoistRecvCallArgs(c *ast.CallExpr) []ast.Stmt {
	var pre []ast.Stmt
	for i := range c.Args {
		pre = append(pre, in.hoistRecvExpr(&c.Args[i])...)
	}
	return pre
}

func (in *instrumenter) hoistRecv(st ast.Stmt) []ast.Stmt {
	var pre []ast.Stmt
	switch s := st.(type) {
	case *ast.AssignStmt:
		for i := range s.Rhs {
			pre = append(pre, in.hoistRecvExpr(&s.Rhs[i])...)
		}
		for i := range s.Lhs {
			pre = append(pre, in.hoistRecvExpr(&s.Lhs[i])...)
		}
	case *ast.ReturnStmt:
		for i := range s.Results {
			pre = append(pre, in.hoistRecvExpr(&s.Results[i])...)
		}
	case *ast.ExprStmt:
		pre = append(pre, in.hoistRecvExpr(&s.X)...)
	case *ast.IncDecStmt:
		pre = append(pre, in.hoistRecvExpr(&s.X)...)
	case *ast.DeclStmt:
		if gd, ok := s.Decl.(*ast.GenDecl); ok {
			for _, sp := range gd.Specs {
				if vs, ok := sp.(*ast.ValueSpec); ok {
					for i := range vs.Values {
						pre = append(pre, in.hoistRecvExpr(&vs.Values[i])...)
					}
				}
			}
		}
	}
	return pre
}

// rangeChan: for k := range ch { body }  =>
//
//	__c := ch
//	for { simrt.RecvWait(__c); k, __ok := <-__c; if !__ok { break }; body }
func (in *instrumenter) rangeChan(s *ast.RangeStmt) []ast.Stmt {
	in.usesSim = true
	c := in.tmp("c")
	ok := in.tmp("ok")
	var key ast.Expr = ast.NewIdent("_")
	tok := token.DEFINE
	if s.Key != nil {
		key = s.Key
		tok = s.Tok
	}
	if tok == token.ILLEGAL {
		tok = token.DEFINE
	}
	recv := &ast.AssignStmt{Lhs: []ast.Expr{key, ok}, Tok: token.DEFINE, Rhs: []ast.Expr{&ast.UnaryExpr{Op: token.ARROW, X: c}}}
	var head []ast.Stmt
	if s.Key != nil && tok == token.ASSIGN {
		// for k = range ch: assign to the existing variable
		v := in.tmp("v")
		recv.Lhs[0] = v
		head = []ast.Stmt{recv, &ast.AssignStmt{Lhs: []ast.Expr{s.Key}, Tok: token.ASSIGN, Rhs: []ast.Expr{v}}}
	} else {
		head = []ast.Stmt{recv}
	}
	body := []ast.Stmt{&ast.ExprStmt{X: simCall("RecvWait", c)}}
	body = append(body, head...)
	body = append(body, &ast.IfStmt{Cond: &ast.UnaryExpr{Op: token.NOT, X: ok}, Body: &ast.BlockStmt{List: []ast.Stmt{&ast.BranchStmt{Tok: token.BREAK}}}})
	body = append(body, in.rewriteList(s.Body.List)...)
	loop := &ast.ForStmt{Body: &ast.BlockStmt{List: body}}
	return []ast.Stmt{
		&ast.AssignStmt{Lhs: []ast.Expr{c}, Tok: token.DEFINE, Rhs: []ast.Expr{in.expr(s.X)}},
		loop,
	}
}

// selectStmt: see simrt.Select.
func (in *instrumenter) selectStmt(s *ast.SelectStmt) []ast.Stmt {
	in.usesSim = true
	var pre []ast.Stmt
	var cases []ast.Expr
	hasDefault := false
	sw := &ast.SwitchStmt{Body: &ast.BlockStmt{}}
	idx := 0
	for _, c := range s.Body.List {
		cc := c.(*ast.CommClause)
		if cc.Comm == nil {
			hasDefault = true
			sw.Body.List = append(sw.Body.List, &ast.CaseClause{Body: in.rewriteList(cc.Body)})
			continue
		}
		ch := in.tmp("c")
		var op ast.Stmt
		switch comm := cc.Comm.(type) {
		case *ast.SendStmt:
			v := in.tmp("x")
			pre = append(pre,
				&ast.AssignStmt{Lhs: []ast.Expr{ch}, Tok: token.DEFINE, Rhs: []ast.Expr{in.expr(comm.Chan)}},
				&ast.AssignStmt{Lhs: []ast.Expr{v}, Tok: token.DEFINE, Rhs: []ast.Expr{in.expr(comm.Value)}})
			// the value keeps its static type through the temporary; untyped
			// constants would default, which cannot change the channel's
			// element conversion for the cases that compile
			comm.Chan, comm.Value = ch, v
			op = comm
			cases = append(cases, simCall("SendCase", ch))
		case *ast.ExprStmt:
			u := unparen(comm.X).(*ast.UnaryExpr)
			pre = append(pre, &ast.AssignStmt{Lhs: []ast.Expr{ch}, Tok: token.DEFINE, Rhs: []ast.Expr{in.expr(u.X)}})
			u.X = ch
			op = comm
			cases = append(cases, simCall("RecvCase", ch))
		case *ast.AssignStmt:
			u := unparen(comm.Rhs[0]).(*ast.UnaryExpr)
			pre = append(pre, &ast.AssignStmt{Lhs: []ast.Expr{ch}, Tok: token.DEFINE, Rhs: []ast.Expr{in.expr(u.X)}})
			u.X = ch
			op = comm
			cases = append(cases, simCall("RecvCase", ch))
		}
		body := append([]ast.Stmt{op}, in.rewriteList(cc.Body)...)
		sw.Body.List = append(sw.Body.List, &ast.CaseClause{List: []ast.Expr{&ast.BasicLit{Kind: token.INT, Value: strconv.Itoa(idx)}}, Body: body})
		idx++
	}
	if !hasDefault {
		// a select whose cases all end in terminating statements is itself terminating;
		// the switch needs a (never taken) default to be one too
		sw.Body.List = append(sw.Body.List, &ast.CaseClause{Body: []ast.Stmt{&ast.ExprStmt{X: &ast.CallExpr{Fun: ast.NewIdent("panic"), Args: []ast.Expr{&ast.BasicLit{Kind: token.STRING, Value: strconv.Quote("simrt.Select chose no case")}}}}}})
	}
	args := []ast.Expr{ast.NewIdent(strconv.FormatBool(hasDefault))}
	args = append(args, cases...)
	sw.Tag = simCall("Select", args...)
	return append(pre, sw)
}

func unparen(e ast.Expr) ast.Expr {
	for {
		p, ok := e.(*ast.ParenExpr)
		if !ok {
			return e
		}
		e = p.X
	}
}

// goStmt: go f(a, b)  =>  { __f := f; __a1 := a; __a2 := b; simrt.Go("name", func() { __f(__a1, __a2) }) }
func (in *instrumenter) goStmt(s *ast.GoStmt) ast.Stmt {
	in.usesSim = true
	call := s.Call
	var binds []ast.Stmt
	name := in.curFunc
	fn := in.expr(call.Fun)
	var callee ast.Expr
	if fl, ok := fn.(*ast.FuncLit); ok && len(call.Args) == 0 {
		// go func() {...}(): run the literal directly
		callee = fl
		return &ast.ExprStmt{X: simCall("Go", &ast.BasicLit{Kind: token.STRING, Value: strconv.Quote(name)}, fl)}
	}
	f := in.tmp("f")
	binds = append(binds, &ast.AssignStmt{Lhs: []ast.Expr{f}, Tok: token.DEFINE, Rhs: []ast.Expr{fn}})
	callee = f
	var args []ast.Expr
	for _, a := range call.Args {
		t := in.tmp("a")
		binds = append(binds, &ast.AssignStmt{Lhs: []ast.Expr{t}, Tok: token.DEFINE, Rhs: []ast.Expr{in.expr(a)}})
		args = append(args, t)
	}
	inner := &ast.CallExpr{Fun: callee, Args: args, Ellipsis: call.Ellipsis}
	lit := &ast.FuncLit{Type: &ast.FuncType{Params: &ast.FieldList{}}, Body: &ast.BlockStmt{List: []ast.Stmt{&ast.ExprStmt{X: inner}}}}
	binds = append(binds, &ast.ExprStmt{X: simCall("Go", &ast.BasicLit{Kind: token.STRING, Value: strconv.Quote(name)}, lit)})
	return &ast.BlockStmt{List: binds}
}
