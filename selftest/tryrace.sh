#!/bin/bash
# tryrace.sh <prop> [secs] [seed]: single-shard run of the -race build (development aid)
export GOFLAGS=-mod=mod GOPROXY=off GOSUMDB=off GOTOOLCHAIN=local
cd /verif && go1.26.8 build -o bin/verif-run ./cmd/verif-run || exit 2
B=$(./bin/verif-run build -race 2>&1 | tail -1)
[ -x "$B" ] || { ./bin/verif-run build -race; exit 2; }
mkdir -p /var/tmp/vout/race; rm -f /var/tmp/vout/race/*
p=$1; secs=${2:-5}; seed=${3:-1}
GORACE="halt_on_error=0 log_path=/var/tmp/vout/race/r" GOMAXPROCS=1 $B -test.run '^TestVerif$' -verif.prop $p -verif.secs $secs -verif.seed $seed -verif.out /var/tmp/vout/$p.json -verif.sites $(dirname $B)/sites.json -verif.replaydir /var/tmp/vout/replays -verif.racelog /var/tmp/vout/race/r ${EXTRA} 2>&1 | grep -v "^PASS\|^FAIL\|race detected\|^---" | tail -5
python3 - <<PY
import json
d=json.load(open('/var/tmp/vout/$p.json'))
print({k:d.get(k) for k in ['episodes','nontrivial','verdicts','infra']})
for k,v in sorted(d['extra'].items()):
    if k.startswith('race:') or 'race' in k: print('  ',v,k)
for v in (d['violations'] or []): print('  VIOL',v['clause'],v['msg'],v['replay'])
PY
