#!/bin/bash
# check_mutant.sh <patch> <tier> <ids...> : apply a seeded change to /repo, run the named checks, undo it.
patch=$1; tier=$2; shift 2
git -C /repo status --short | grep -q . && { echo "/repo is not clean"; exit 2; }
git -C /repo apply $patch || exit 2
trap 'git -C /repo checkout -q -- .' EXIT
cd /verif
for id in "$@"; do
  s=$(date +%s)
  out=$(VERIF_SECS=${VERIF_SECS:-25} ./check $id $tier 2>&1); rc=$?
  e=$(date +%s)
  echo "$id rc=$rc $((e-s))s $(echo "$out" | grep -E 'clause=|INFRA' | head -2 | cut -c1-300)"
done
