import re,collections,sys,glob
c=collections.Counter(); ex={}
for f in glob.glob(sys.argv[1]+'*'):
    txt=open(f).read()
    for r in txt.split('=================='):
        if 'DATA RACE' not in r: continue
        tops=[]
        for b in re.split(r'\n\n',r.strip()):
            lines=b.strip().split('\n')
            if re.match(r'(Write|Read|Previous)',lines[0].strip()):
                fr=[l.strip() for l in lines[1:] if not l.startswith('      ')]
                tops.append(fr[0] if fr else '?')
        key=tuple(sorted(tops)); c[key]+=1; ex.setdefault(key,r)
for k,v in c.most_common(40): print(v,k)
if len(sys.argv)>2:
    for k in ex:
        if any(sys.argv[2] in x for x in k): print(ex[k][:3000]); break
