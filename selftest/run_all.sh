#!/bin/bash
# run_all.sh quick|thorough [ids...]: run the registered checks one after the other, print one line each
cd "$(dirname "$0")/.."
tier=${1:-quick}; shift
ids="$@"
[ -z "$ids" ] && ids=$(python3 -c "import json;print(' '.join(c['property_id'] for c in json.load(open('MANIFEST.json'))['checks']))")
for id in $ids; do
  out=$(./check $id $tier 2>&1); rc=$?
  echo "$id rc=$rc $(echo "$out" | grep -E '^property=|VIOLATION|INFRA|KNOWN' | head -3 | tr '\n' ' ')"
done
