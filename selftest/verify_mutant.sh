#!/bin/bash
# verify_mutant.sh <worktree> <N> : confirm a seeded change in its scratch worktree:
#   suite passes with the change (2 runs), demo fails with it, demo passes without it.
wt=$1; n=$2
cd $wt || exit 2
export GOFLAGS=-mod=mod GOPROXY=off
git checkout -q -- . ; rm -f zz_demo_test.go */zz_demo_test.go
git apply --check mut$n.diff || { echo "PATCH does not apply"; exit 2; }
git apply mut$n.diff
echo "== build"; go build ./... || { echo BUILD-FAIL; git checkout -q -- .; exit 1; }
for i in 1 2; do echo "== suite run $i"; go test -count=1 ./... 2>&1 | grep -v "no test files" | grep -v "^ok" | head -5; done
pkg=$(grep -m1 '^package ' mut${n}_demo_test.go.txt | awk '{print $2}')
dir=.
case $pkg in helpers) dir=internal/helpers;; queues) dir=internal/queues;; linkedlist) dir=internal/linkedlist;; pool) dir=internal/pool;; linkedbuffer) dir=internal/linkedbuffer;; esac
cp mut${n}_demo_test.go.txt $dir/zz_demo_test.go
echo "== demo WITH the change"; (cd $dir && timeout 600 go test ${RACE:+-race} -count=1 -run 'Demo|Mut|demo' . 2>&1 | tail -5)
git checkout -q -- .
echo "== demo WITHOUT the change"; (cd $dir && timeout 600 go test ${RACE:+-race} -count=1 -run 'Demo|Mut|demo' . 2>&1 | tail -3)
rm -f $dir/zz_demo_test.go
git status --short | grep -v "mut[0-9]" | head
