#!/bin/bash
# census.sh <secs> <props...>: clause-hit histogram per property on the current tree (development aid)
export GOFLAGS=-mod=mod GOPROXY=off GOSUMDB=off GOTOOLCHAIN=local
cd /verif && go1.26.8 build -o bin/verif-run ./cmd/verif-run || exit 2
B=$(./bin/verif-run build 2>&1 | tail -1)
[ -x "$B" ] || { ./bin/verif-run build; exit 2; }
secs=$1; shift
mkdir -p /var/tmp/vout/census
for p in "$@"; do
  ( GOMAXPROCS=1 timeout 300 $B -test.run '^TestVerif$' -verif.prop $p -verif.secs $secs -verif.census -verif.out /var/tmp/vout/census/$p.json -verif.sites $(dirname $B)/sites.json > /var/tmp/vout/census/$p.log 2>&1 ) &
done
wait
for p in "$@"; do
python3 - <<PY
import json
try:
    d=json.load(open('/var/tmp/vout/census/$p.json'))
    cl={k[7:]:v for k,v in d['extra'].items() if k.startswith('clause:')}
    print('$p','episodes',d['episodes'],'nontrivial',d['nontrivial'],'verdicts',d['verdicts'],'infra',d.get('infra'))
    print('    ',dict(sorted(cl.items())))
except Exception as e:
    print('$p','FAILED',e); print(open('/var/tmp/vout/census/$p.log').read()[-1500:])
PY
done
