#!/usr/bin/env python3
# keep_mutant.py <worktree> <N> <name> <property> <needs> <caught-by json>
import sys, os, shutil, json
wt, n, name, prop, needs, caught = sys.argv[1:7]
d = f'/verif/seeded/{name}'
os.makedirs(d, exist_ok=True)
shutil.copy(f'{wt}/mut{n}.diff', f'{d}/patch.diff')
shutil.copy(f'{wt}/mut{n}_demo_test.go.txt', f'{d}/demo_test.go.txt')
if os.path.exists(f'{wt}/mut{n}.md'): shutil.copy(f'{wt}/mut{n}.md', f'{d}/author_notes.md')
meta = {"id": name, "breaks_property": prop, "needs_to_manifest": needs,
        "source": "independent sub-agent given only the property text and a scratch worktree",
        "confirmed": "in the scratch worktree: module builds, full suite passes twice with the change, demo fails with the change and passes without it (selftest/verify_mutant.sh)",
        "checks_run": json.loads(caught)}
json.dump(meta, open(f'{d}/meta.json', 'w'), indent=1)
print("kept", d)
