#!/usr/bin/env python3
# Regenerates /verif/MANIFEST.json from the table below (kept in one place so that it is always schema-valid).
import json, subprocess
built = {
 "C01": ("exactly-once ledger (accept/cancel/purge vs. executions) over seeded programs x schedules, all worker and queue kinds", "§5 C01"),
 "C02": ("online in-flight counter vs. the largest limit in effect since the oldest in-flight job was dispatched; gated worker functions, TunePool/Restart/Pause under saturation", "§5 C02"),
 "C03": ("bounded liveness by exact quiescence: no accepted job unfinished at rest, work conservation at gated quiescence (also with refusing and bounded user-supplied queues), no internal goroutine blocked on send/lock at rest, livelock by step cap under the ageing scheduler", "§5 C03"),
 "C05": ("handle calls return after the job's release event and do return once it happened (any number of concurrent/repeated callers)", "§5 C05"),
 "C06": ("barrier exactness: WaitUntilFinished vs. finish events of earlier-accepted jobs, PauseAndWait/Stop/WaitAndStop vs. in-flight count, no barrier blocked at rest", "§5 C06"),
 "C07": ("Result/Err/ID/Data vs. the harness outcome function of the payload, panics contained, metrics split, errors on Errs() attributable", "§5 C07"),
 "C08": ("batch stream content multiset, closed exactly once (also empty/rejected/purged), NumPending interval oracle, no panic", "§5 C08"),
 "C09": ("no function entry between a returned PauseAndWait/Stop/WaitAndStop and the next Resume/Restart; Pause bound; pending set and order preserved across cycles", "§5 C09"),
 "C10": ("cancel excludes run, return codes of Close, purge/queue-close effects, nobody silently dropped, no panic", "§5 C10"),
 "C16": ("monotone status per job under interval semantics, Processing while running, Closed after Wait", "§5 C16"),
 "C17": ("counter bounds at every sample, exact accounting at quiescent points (running and paused/stopped); raw-queue layer: Len of the real queue types within [0, enqueues invoked] under concurrent enqueue/dequeue/purge clients", "§5 C17"),
}
pending = {
}
try:
    extra = json.load(open('/verif/selftest/manifest_extra.json'))
except Exception:
    extra = {"built": {}, "pending": {}}
built.update({k: tuple(v) for k, v in extra.get("built", {}).items()})
pending.update(extra.get("pending", {}))
for k in built: pending.pop(k, None)
checks = []
for pid in sorted(built):
    text, ref = built[pid]
    level = "fault_enumeration" if pid == "C11" else "exploration"
    checks.append({
        "property_id": pid,
        "quick_cmd": f"./check {pid} quick",
        "thorough_cmd": f"./check {pid} thorough",
        "evidence_file": f"/verif/evidence/{pid}.json",
        "replay_cmd_template": f"./check {pid} --replay {{path}}",
        "engine": "simrt",
        "level_claimed": {"category": level, "text": "Seeded search over schedules, faults and generated client programs in a deterministic simulator running the real library code: " + text + ". A clean run is evidence for the explored episodes (counts in the evidence file), not a proof.", "design_ref": ref},
        "level_note": "Trusted: Go toolchain and race detector, the go/ast instrumenter (yield granularity = statements, atomics, sync ops), the simulated adapters/clock as models of real ones, the harness oracles; sampling, not enumeration.",
        "technique": "deterministic simulation with fault injection: seeded token-passing scheduler over the instrumented library, simulated clock/adapters, post-hoc history oracles, ddmin-minimised replay tapes",
    })
m = {
 "version": 1,
 "setup_cmd": "cd /verif && mkdir -p bin && GOFLAGS=-mod=mod GOPROXY=off GOSUMDB=off GOTOOLCHAIN=local go1.26.8 build -o bin/verif-run ./cmd/verif-run",
 "hooks": {
   "guard": "verif",
   "enable": "none needed: every check instruments /repo's working tree into a scratch directory and builds with `go test -overlay` (DESIGN §3); nothing guarded is committed to /repo",
   "baseline_off_cmd": "cd /repo && GOFLAGS=-mod=mod GOPROXY=off go test -vet=off -count=1 ./...",
   "source_commits": [],
   "add_only": True,
 },
 "engines": [{"name": "simrt", "path": "/verif/simrt", "serves_properties": sorted(built), "kind_free_text": "deterministic token-passing scheduler over real goroutines with seeded schedules, simulated clock, sync/channel substitutes wrapping the real primitives, simulated adapters, fault injection; harness under /verif/harness; instrumenter + driver under /verif/cmd/verif-run"}],
 "checks": checks,
 "not_applicable": [{"property_id": k, "reason": v} for k, v in sorted(pending.items())],
 "notes": "Exit codes: 0 held (KNOWN-FINDING lines allowed), 1 VIOLATION property=<id> replay=<path>, 2 infrastructure. Genuine defects found and repaired are listed in /verif/known_findings.json (status fixed) and DESIGN.md §4.5.",
}
json.dump(m, open('/verif/MANIFEST.json', 'w'), indent=1)
print("wrote MANIFEST with", len(checks), "checks,", len(pending), "not claimed")
