#!/usr/bin/env python3
# run_seeded.py [names...]: apply every kept seeded change to /repo in turn, run the quick checks named in its
# meta.json (first the property's own check), undo it, and regenerate /verif/seeded/README.md.
import json, os, subprocess, sys, time, re
VERIF = os.environ.get('VERIF_DIR', '/verif')
REPO = os.environ.get('VERIF_REPO', '/repo')
root = VERIF + '/seeded'
names = sys.argv[1:] or sorted(d for d in os.listdir(root) if os.path.isdir(f'{root}/{d}'))
assert subprocess.run(['git', '-C', REPO, 'status', '--short'], capture_output=True, text=True).stdout.strip() == '', '/repo not clean'
rows = []
for n in names:
    meta = json.load(open(f'{root}/{n}/meta.json'))
    checks = []
    for c in meta.get('checks_run', []):
        cid = c['check'].split()[0]
        if cid not in checks: checks.append(cid)
    own = meta['breaks_property']
    if own not in checks: checks.insert(0, own)
    ap = subprocess.run(['git', '-C', REPO, 'apply', f'{root}/{n}/patch.diff'], capture_output=True, text=True)
    if ap.returncode != 0:
        # the tree moved on (a later fix: commit): retry with fuzz and, when that works, refresh the stored patch
        ap = subprocess.run(['patch', '-p1', '-d', REPO, '--fuzz=3', '--no-backup-if-mismatch', '-i', f'{root}/{n}/patch.diff'], capture_output=True, text=True)
        if ap.returncode == 0:
            d = subprocess.run(['git', '-C', REPO, 'diff'], capture_output=True, text=True).stdout
            open(f'{root}/{n}/patch.diff', 'w').write(d)
    res = []
    if ap.returncode != 0:
        res.append(('-', 'patch no longer applies', 0))
    else:
        for cid in checks:
            # the neighbours only when the property's own check did not report it
            if res and res[0][1].startswith('VIOLATION') and not os.environ.get('ALL_CHECKS'):
                break
            t0 = time.time()
            p = subprocess.run(['./check', cid, 'quick'], cwd=VERIF, capture_output=True, text=True, env=dict(os.environ, VERIF_SECS=os.environ.get('VERIF_SECS', '25')))
            dt = time.time() - t0
            m = re.search(r'clause=(\S+)', p.stdout)
            verdict = {0: 'not reported', 1: 'VIOLATION ' + (m.group(1) if m else '?'), 2: 'INFRA'}.get(p.returncode, str(p.returncode))
            res.append((cid, verdict, dt))
    subprocess.run(['git', '-C', REPO, 'reset', '-q', '--hard', 'HEAD'])
    subprocess.run(['git', '-C', REPO, 'clean', '-fdq'], capture_output=True)
    meta['last_run'] = [{'check': c + ' quick', 'result': v, 'seconds': round(dt, 1)} for c, v, dt in res]
    json.dump(meta, open(f'{root}/{n}/meta.json', 'w'), indent=1)
    rows.append((n, meta, res))
    print(n, res, flush=True)
# README
allm = []
for d in sorted(os.listdir(root)):
    if os.path.isdir(f'{root}/{d}'):
        allm.append((d, json.load(open(f'{root}/{d}/meta.json'))))
with open(f'{root}/README.md', 'w') as f:
    f.write('# Seeded changes (sensitivity of the checks)\n\nEach directory holds `patch.diff` (the change to goptics/varmq), `demo_test.go.txt` (the author\'s demonstration: fails with the change, passes without), `author_notes.md` and `meta.json`. The changes were written by independent sub-agents that saw only the property text and a scratch worktree; each was confirmed in a scratch worktree (builds, full suite passes twice with the change, demo fails with / passes without) before being kept. None is ever committed to /repo. `selftest/run_seeded.py` re-applies each one, runs the quick checks and regenerates this table.\n\n')
    f.write('| seeded change | breaks | needs | quick checks (last run) | history |\n|---|---|---|---|---|\n')
    for d, m in allm:
        last = '; '.join(f"{x['check']}: {x['result']} ({x['seconds']} s)" for x in m.get('last_run', [])) or '(not re-run yet)'
        hist = '; '.join(f"{x['check']}: {x['result']}" for x in m.get('checks_run', []))
        f.write(f"| {d} | {m['breaks_property']} | {m['needs_to_manifest']} | {last} | {hist} |\n")
print('README written')
