import json,sys
for p in sys.argv[1:]:
    d=json.load(open(p))
    print(p,{k:d.get(k) for k in ['episodes','nontrivial','steps','verdicts','wall_s','foreign_clauses','known_hits','infra']})
    print('  probes',d.get('probes'))
    for v in (d['violations'] or []): print('  VIOL',v)
