#!/bin/bash
# wave_check.sh <wavedir> <P:n>... : for each candidate (worktree <wavedir>/<P>, change n) confirm it in its scratch
# worktree (verify_mutant.sh) and run the quick check of its property against it; one summary block each.
wd=$1; shift
for m in "$@"; do
  p=${m%%:*}; n=${m##*:}
  v=$(RACE=$([ $p = C19 ] && echo 1) /verif/selftest/verify_mutant.sh $wd/$p $n 2>&1 | grep -v conda)
  suite=$(echo "$v" | sed -n '/== suite run 1/,/== demo WITH/p' | grep -c -- "--- FAIL\|^FAIL\|panic:")
  with=$(echo "$v" | sed -n '/== demo WITH/,/== demo WITHOUT/p' | grep -c "^FAIL\|panic:")
  without=$(echo "$v" | sed -n '/== demo WITHOUT/,$p' | grep -c "^ok")
  build=$(echo "$v" | grep -c "BUILD-FAIL\|PATCH does not")
  c=$(/verif/selftest/check_mutant.sh $wd/$p/mut$n.diff quick $p 2>&1 | grep -v conda | tail -1 | cut -c1-260)
  echo "## $p mut$n: build_problems=$build suite_failures=$suite demo_with_fails=$with demo_without_ok=$without | $c"
done
