import json,sys
d=json.load(open(sys.argv[1]))
print(d['clause'],d['msg']); print(json.dumps(d['cfg'])); print('ops',d['orig_ops'],'->',d['ops'],'preempt',d['preemptions'],'tape',len(d['tape']))
t=d['trace']
skip=('sample#','Status job')
for l in t:
    if len(sys.argv)>2 or not any(x in l for x in skip): print(l)
