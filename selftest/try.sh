#!/bin/bash
# usage: try.sh <prop> [secs] [seed]  — single-shard exploratory run (development aid)
export GOFLAGS=-mod=mod GOPROXY=off GOSUMDB=off GOTOOLCHAIN=local
cd /verif && go1.26.8 build -o bin/verif-run ./cmd/verif-run || exit 2
B=$(./bin/verif-run build 2>&1 | tail -1)
[ -x "$B" ] || { ./bin/verif-run build; exit 2; }
mkdir -p /var/tmp/vout
p=$1; secs=${2:-5}; seed=${3:-1}
GOMAXPROCS=1 $B -test.run '^TestVerif$' -verif.prop $p -verif.secs $secs -verif.seed $seed -verif.out /var/tmp/vout/$p.json -verif.sites $(dirname $B)/sites.json -verif.replaydir /var/tmp/vout/replays ${EXTRA} 2>&1 | grep -v '^PASS' | tail -20
python3 /verif/selftest/show.py /var/tmp/vout/$p.json
