#!/bin/bash
# determinism.sh [episodes-per-property] : every property's workload, each seed executed in several fresh
# processes under GOMAXPROCS 1/4/16 (and in the -race build); the per-episode hashes of everything recorded
# (tape, calls, function events, queue events, violations) must be identical within a build mode.
export GOFLAGS=-mod=mod GOPROXY=off GOSUMDB=off GOTOOLCHAIN=local
cd /verif && go1.26.8 build -o bin/verif-run ./cmd/verif-run || exit 2
N=${1:-200}
B=$(./bin/verif-run build 2>&1 | tail -1); BR=$(./bin/verif-run build -race 2>&1 | tail -1)
[ -x "$B" ] && [ -x "$BR" ] || { echo "build failed"; exit 2; }
out=/var/tmp/verif-determinism; rm -rf $out; mkdir -p $out
props="C01 C02 C03 C05 C06 C07 C08 C09 C10 C11 C13 C14 C15 C16 C17 C18 C04"
fail=0
for p in $props; do
  for run in 1 2 3; do
    for gmp in 1 4 16; do
      ( GOMAXPROCS=$gmp $B -test.run '^TestVerif$' -verif.prop $p -verif.mode hash -verif.episodes $N -verif.seed 77 -verif.sites $(dirname $B)/sites.json 2>/dev/null | grep '^HASH' > $out/$p.norace.$gmp.$run ) &
    done
  done
  ( GOMAXPROCS=1 $BR -test.run '^TestVerif$' -verif.prop $p -verif.mode hash -verif.episodes $((N/4)) -verif.seed 77 -verif.sites $(dirname $BR)/sites.json 2>/dev/null | grep '^HASH' > $out/$p.race.1.1 ) &
  ( GOMAXPROCS=4 $BR -test.run '^TestVerif$' -verif.prop $p -verif.mode hash -verif.episodes $((N/4)) -verif.seed 77 -verif.sites $(dirname $BR)/sites.json 2>/dev/null | grep '^HASH' > $out/$p.race.4.1 ) &
  wait
  ref=$out/$p.norace.1.1
  n=$(wc -l < $ref)
  bad=0
  for f in $out/$p.norace.*; do cmp -s $ref $f || { bad=1; echo "MISMATCH $p: $f"; diff $ref $f | head -3; }; done
  cmp -s $out/$p.race.1.1 $out/$p.race.4.1 || { bad=1; echo "MISMATCH $p race builds"; diff $out/$p.race.1.1 $out/$p.race.4.1 | head -3; }
  # race and non-race builds must also agree on the schedule (same scheduler code)
  head -$((N/4)) $ref | cmp -s - $out/$p.race.1.1 || { echo "NOTE $p: race and non-race builds differ"; diff <(head -$((N/4)) $ref) $out/$p.race.1.1 | head -3; bad=1; }
  echo "$p: $n episodes x 9 non-race processes (GOMAXPROCS 1/4/16) + 2 race processes: $([ $bad = 0 ] && echo identical || echo DIFFERENT)"
  [ $bad = 0 ] || fail=1
done
rm -rf $out
exit $fail
