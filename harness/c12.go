package varmq

// C12 — persistent/distributed jobs keep id and payload; bad entries are
// isolated (DESIGN §5 C12).  The encode/decode pair is a pure function of its
// input: that part is seeded input generation riding on the simulator.  What the
// simulator adds is the pipeline (producer tasks, adapter, dispatcher, pool
// goroutine), the placement of corrupted/foreign entries among valid ones while
// the consumer runs, and the schedule.

import (
	"bytes"
	"encoding/json"
	"fmt"
	"math"
	"os"
	"reflect"
	"strings"
	"testing"
	"time"

	"github.com/goptics/varmq/internal/simrt"
)

type c12Nested struct {
	Name  string            `json:"name"`
	N     int64             `json:"n,omitempty"`
	P     *float64          `json:"p"`
	Tags  []string          `json:"tags"`
	M     map[string]int    `json:"m,omitempty"`
	Inner *c12Nested        `json:"inner,omitempty"`
	Skip  string            `json:"-"`
	Any   any               `json:"any"`
	Bytes []byte            `json:"bytes,omitempty"`
	KV    map[string]string `json:"kv"`
}

type c12Seen struct {
	Seq  uint64
	ID   string
	Data any
}

type c12Delivery struct {
	Seq     uint64
	Arrival int
}

// c12World is the per-episode state shared by the tasks (plain memory, token-protected).
type c12World struct {
	wd       *World
	ad       *simAdapter
	seen     []c12Seen
	errs     []string
	adds     []c12Add
	viols    []Viol
	conc     int
	prio     bool
	injected int
	restarted bool // the consumer was restarted while entries were on their way (errors of the old run are not followed)
}

type c12Add struct {
	ID        string
	Inv, Ret  uint64
	OK        bool
	Encodable bool
	Expected  any
	Arrival   int // adapter arrival number when stored, 0 = not stored
	Task      int // submitting task
	Foreign   bool // a well-formed entry another process wrote into the backend (framed by JSON white space)
	NoID      bool // submitted without an id on a worker that has an id generator
	GenMissing bool // ... and the generator was not called by the submitting task during the Add
}

func (w *c12World) add(clause string, seq uint64, format string, a ...any) {
	w.viols = append(w.viols, Viol{Clause: clause, Seq: seq, Msg: fmt.Sprintf(format, a...)})
}

var c12IDs = []string{"plain", "ünïcödé", "with space", "q\"uote", "<tag>&amp;", "back\\slash", "new\nline", "日本語", "emoji😀", "nul\x00byte", "bad\xffutf8", "{\"json\":1}", "tab\t", " lead", "trail ", "\r\nboth\u3000"}

func c12ID(r *simrt.Rand, n int) string { return fmt.Sprintf("%s#%d", c12IDs[r.Intn(len(c12IDs))], n) }

func c12String(r *simrt.Rand) string {
	return []string{"", "a", "hello world", "ünï", "\"quoted\"", "<>&", "\\", "\n\t", "日本", "😀", "\x00", "\xff\xfe", "null", "{\"a\":1}", strings.Repeat("x", 300)}[r.Intn(15)]
}

func c12Float(r *simrt.Rand) float64 {
	return []float64{0, 1, -1, 0.5, 1e300, -1e-300, 9007199254740993, math.MaxFloat64, math.SmallestNonzeroFloat64, math.NaN(), math.Inf(1), math.Inf(-1), 3.141592653589793}[r.Intn(13)]
}

func c12Any(r *simrt.Rand, depth int) any {
	switch r.Intn(8) {
	case 0:
		return nil
	case 1:
		return c12String(r)
	case 2:
		return float64(r.Intn(1000)) - 500
	case 3:
		return r.Chance(50)
	case 4:
		if depth < 3 {
			return []any{c12Any(r, depth+1), c12Any(r, depth+1)}
		}
		return []any{}
	case 5:
		if depth < 3 {
			return map[string]any{"k": c12Any(r, depth+1), c12String(r): c12Any(r, depth+1)}
		}
		return map[string]any{}
	case 6:
		return int64(1)<<53 + 1
	default:
		return c12Float(r)
	}
}

func c12NestedVal(r *simrt.Rand, depth int) c12Nested {
	v := c12Nested{Name: c12String(r), N: []int64{0, 1, -1, math.MaxInt64, math.MinInt64, 1<<53 + 1}[r.Intn(6)], Skip: "never serialised"}
	if r.Chance(50) {
		f := c12Float(r)
		if !math.IsNaN(f) && !math.IsInf(f, 0) || r.Chance(10) {
			v.P = &f
		}
	}
	if r.Chance(60) {
		v.Tags = []string{c12String(r), c12String(r)}
	}
	if r.Chance(40) {
		v.M = map[string]int{c12String(r): r.Intn(10), "b": -1}
	}
	if depth < 2 && r.Chance(40) {
		in := c12NestedVal(r, depth+1)
		v.Inner = &in
	}
	if r.Chance(50) {
		v.Any = c12Any(r, 1)
	}
	if r.Chance(30) {
		v.Bytes = []byte(c12String(r))
	}
	if r.Chance(50) {
		v.KV = map[string]string{c12String(r): c12String(r)}
	}
	return v
}

// expectedOf computes decode(encode(v)) into T with the harness' own json calls.
func expectedOf[T any](v T) (any, bool) {
	b, err := json.Marshal(v)
	if err != nil {
		return nil, false
	}
	var out T
	if err := json.Unmarshal(b, &out); err != nil {
		return nil, false
	}
	return out, true
}

// wire format of a stored job (what adapters and other processes see)
type c12Wire[T any] struct {
	ID     string `json:"id"`
	Status string `json:"status"`
	Data   T      `json:"data"`
}

func c12Decodable[T any](b []byte) bool {
	var v c12Wire[T]
	if json.Unmarshal(b, &v) != nil {
		return false
	}
	switch v.Status {
	case "Created", "Queued", "Processing", "Finished":
		return true
	}
	return false
}

func c12Corrupt(r *simrt.Rand, valid []byte) (adEntry, string) {
	switch r.Intn(10) {
	case 8, 9:
		// a complete envelope with more bytes behind it (two entries run together, a stray
		// brace, padding): not JSON as a whole, so it cannot be decoded
		tail := [][]byte{[]byte("}"), {0, 0}, []byte("xyz"), valid, []byte(",")}[r.Intn(5)]
		b := append(append([]byte(nil), bytes.Replace(valid, []byte(`"id":"inj`), []byte(`"id":"trail`), 1)...), tail...)
		return adEntry{Bytes: b, Bad: 10, Sub: -1}, "trailing-bytes"
	case 0:
		return adEntry{Bytes: valid[:len(valid)/2], Bad: 1, Sub: -1}, "truncated"
	case 1:
		b := append([]byte(nil), valid...)
		if len(b) > 0 {
			b[r.Intn(len(b))] ^= byte(1 << uint(r.Intn(8)))
		}
		return adEntry{Bytes: b, Bad: 2, Sub: -1}, "flipped-bit"
	case 2:
		return adEntry{Bytes: []byte(`{"id":17,"status":"Queued","data":{"x":[1,2]}}`), Bad: 3, Sub: -1}, "wrong-field-types"
	case 3:
		return adEntry{Bytes: []byte(`{"id":"x","status":"Exploded","data":null}`), Bad: 4, Sub: -1}, "unknown-status"
	case 4:
		return adEntry{Bytes: []byte(`{"id":"closed-one","status":"Closed","data":null}`), Bad: 5, Sub: -1}, "status-closed"
	case 5:
		return adEntry{Bytes: []byte{0, 1, 2, 0xff, 0xfe}, Bad: 6, Sub: -1}, "raw-bytes"
	case 6:
		return adEntry{Raw: 12345, Bad: 7, Sub: -1}, "non-bytes-value"
	default:
		return adEntry{Bytes: []byte(`[1,2,3]`), Bad: 8, Sub: -1}, "foreign-json"
	}
}

// c12Run is one episode for payload type T.
func c12Run[T any](seed uint64, tier string, gen func(r *simrt.Rand) T) (*Episode, *c12World) {
	r := simrt.NewRand(seed)
	pf := baseProfile()
	var cfg Cfg
	simParams(r, &cfg, pf)
	cfg.Prop = "C12"
	cfg.Conc = pick(r, []int{1, 1, 1, 2, 4})
	kind := pick(r, []int{qkPers, qkPersPrio, qkDist, qkDistPrio})
	cfg.Queues = nil
	cfg.MaxSteps = 150000
	prog := &Program{}
	ep := &Episode{Cfg: cfg, Prog: prog}
	wd := newWorld(cfg, prog)
	ep.W = wd
	cw := &c12World{wd: wd, conc: cfg.Conc, prio: kind == qkPersPrio || kind == qkDistPrio}
	nAdds := 1 + r.Intn(8)
	type sub struct {
		v    T
		id   string
		prio int
	}
	var subs [][]sub
	nprod := 1 + r.Intn(2)
	n := 0
	for p := 0; p < nprod; p++ {
		var s []sub
		for i := 0; i < nAdds; i++ {
			n++
			x := sub{v: gen(r), id: c12ID(r, n)}
			if cw.prio {
				x.prio = pick(r, prioVals)
			}
			s = append(s, x)
		}
		subs = append(subs, s)
	}
	nBad := r.Intn(4)
	bare := kind >= qkDist && r.Chance(50)
	// the consuming worker may have an id generator of its own: ids of stored entries are the
	// producer's business, also the empty one
	consumerGen := r.Chance(40)
	if consumerGen && kind >= qkDist && nBad == 0 && len(subs) > 0 && len(subs[0]) > 0 {
		// (not together with injected entries: a corrupted one may decode with an empty id too)
		subs[0][0].id = ""
	}
	// persistent kinds: the queue belongs to the worker, whose id generator names every
	// submission that does not bring an id; some submissions bring none
	prodGen := kind < qkDist && r.Chance(35)
	if prodGen {
		for i := range subs {
			for k := range subs[i] {
				if r.Chance(35) {
					subs[i][k].id = ""
				}
			}
		}
	}
	// a backend that refuses some enqueues: the submission is rejected, nothing else changes
	fenq := 0
	if r.Chance(25) {
		fenq = pick(r, []int{20, 40})
	}
	type genRec struct {
		task int
		id   string
		seq  uint64
	}
	var genLog []genRec
	startPaused := r.Chance(40)
	restart := !startPaused && r.Chance(12)
	cw.restarted = restart
	opts := simOptions(cfg, seed, numSites, nil, false)
	sim := simrt.New(opts)
	ep.Res = sim.Run(func() {
		wd.rootTaskID = simrt.CurID()
		ad := &simAdapter{root: wd, prio: cw.prio, cfg: QCfg{Kind: kind, NDelay: pick(r, []int{0, 1, 2}), FEnq: fenq, NSync: kind >= qkDist && r.Chance(20)}, faultsOn: fenq > 0}
		cw.ad = ad
		fn := func(j Job[T]) {
			cw.seen = append(cw.seen, c12Seen{Seq: wd.rec.stamp(), ID: j.ID(), Data: j.Data()})
		}
		wopts := []any{WithConcurrency(cfg.Conc)}
		if consumerGen && kind >= qkDist {
			wopts = append(wopts, WithJobIdGenerator(func() string { return "consumer-generated" }))
		}
		if prodGen {
			wopts = append(wopts, WithJobIdGenerator(func() string {
				id := "pg-" + itoa(len(genLog)+1)
				genLog = append(genLog, genRec{simrt.CurID(), id, wd.rec.stamp()})
				return id
			}))
		}
		w := NewWorker(fn, wopts...)
		wd.w = w
		var add func(v T, prio int, id string) bool
		switch kind {
		case qkPers:
			q := w.WithPersistentQueue(adQ{ad})
			add = func(v T, prio int, id string) bool {
				if id == "" && prodGen {
					return q.Add(v) // no option at all
				}
				return q.Add(v, WithJobId(id))
			}
		case qkPersPrio:
			q := w.WithPersistentPriorityQueue(adPQ{ad})
			add = func(v T, prio int, id string) bool {
				if id == "" && prodGen {
					return q.Add(v, prio)
				}
				return q.Add(v, prio, WithJobId(id))
			}
		case qkDist:
			q := w.WithDistributedQueue(adQ{ad})
			b := NewDistributedQueue[T](adQ{ad})
			add = func(v T, prio int, id string) bool {
				if bare {
					return b.Add(v, WithJobId(id))
				}
				return q.Add(v, WithJobId(id))
			}
		default:
			q := w.WithDistributedPriorityQueue(adPQ{ad})
			b := NewDistributedPriorityQueue[T](adPQ{ad})
			add = func(v T, prio int, id string) bool {
				if bare {
					return b.Add(v, prio, WithJobId(id))
				}
				return q.Add(v, prio, WithJobId(id))
			}
		}
		er := &errReader{wd: wd, ch: w.Errs()}
		simrt.GoHarness("errs-reader", er.run)
		if startPaused {
			w.Pause()
		}
		for _, s := range subs {
			s := s
			simrt.GoHarness("producer", func() {
				for _, x := range s {
					exp, enc := expectedOf(x.v)
					a := c12Add{ID: x.id, Inv: wd.rec.stamp(), Encodable: enc, Expected: exp, Task: simrt.CurID()}
					before := ad.arrival
					a.OK = add(x.v, x.prio, x.id)
					a.Ret = wd.rec.stamp()
					if prodGen && x.id == "" {
						a.NoID, a.GenMissing = true, true
						for _, g := range genLog {
							if g.task == a.Task && g.seq > a.Inv && g.seq < a.Ret {
								a.ID, a.GenMissing = g.id, false
							}
						}
					}
					_ = before
					cw.adds = append(cw.adds, a)
				}
			})
		}
		if restart {
			// the consumer is restarted while entries are being stored and dispatched: the
			// event loop of the old run may still be on its last pass next to the new one's,
			// and every entry must come through with its own id and payload all the same
			simrt.GoHarness("restarter", func() {
				for k := simrt.Choose(8); k > 0; k-- {
					simrt.YieldAlways()
				}
				w.Restart()
			})
		}
		// injector: corrupted / foreign entries at seeded positions while everything runs
		if nBad > 0 {
			simrt.GoHarness("injector", func() {
				for i := 0; i < nBad; i++ {
					for k := simrt.Choose(4); k > 0; k-- {
						simrt.YieldAlways()
					}
					if kind >= qkDist && r.Chance(25) {
						// (distributed kinds only: an entry that appears in a persistent backend behind
						// the worker's back is not announced to it)
						// not corrupted at all: what another process (another language's client, a
						// json.Encoder with its trailing newline, a pretty printer) stores for the
						// same job - JSON white space around the object changes nothing
						v := gen(r)
						id := fmt.Sprintf("ws%d", i)
						if exp, enc := expectedOf(v); enc {
							// (and whichever of the states of a stored, not yet completed job the other
							// side recorded: a backend that tracks delivery state rewrites it)
							st := []string{"Queued", "Queued", "Created", "Processing", "Finished"}[r.Intn(5)]
							raw, _ := json.Marshal(c12Wire[T]{ID: id, Status: st, Data: v})
							var framed []byte
							switch r.Intn(4) {
							case 0:
								framed = append(append([]byte(nil), raw...), '\n')
							case 1:
								framed = append([]byte(" "), raw...)
							case 2:
								framed = append(append([]byte("\r\n"), raw...), '\r', '\n')
							default:
								framed, _ = json.MarshalIndent(c12Wire[T]{ID: id, Status: st, Data: v}, "", "\t")
							}
							e := adEntry{Bytes: framed, Sub: -1, Prio: pick(r, prioVals)}
							at := wd.rec.stamp()
							ad.hb()
							ad.inject(simrt.Choose(len(ad.pending)+1), e)
							ad.hb()
							ad.notify()
							cw.adds = append(cw.adds, c12Add{ID: id, Inv: at, Ret: wd.rec.stamp(), OK: true, Encodable: true, Expected: exp, Task: simrt.CurID(), Foreign: true})
							continue
						}
					}
					valid, _ := json.Marshal(c12Wire[T]{ID: fmt.Sprintf("inj%d", i), Status: "Queued", Data: gen(r)})
					e, _ := c12Corrupt(r, valid)
					if r.Chance(20) {
						// a well-formed envelope whose payload is of a JSON type that encoding/json
						// refuses for T: it cannot be decoded either, and must not run as a job
						for _, cand := range []string{`"abc"`, `123`, `{"n":"seven"}`, `[true]`, `{"a":{}}`, `1.5`} {
							var probe T
							if json.Unmarshal([]byte(cand), &probe) != nil {
								e = adEntry{Bytes: []byte(`{"id":"wrongtype","status":"Queued","data":` + cand + `}`), Bad: 9, Sub: -1}
								break
							}
						}
					}
					e.Prio = pick(r, prioVals)
					ad.hb()
					ad.inject(simrt.Choose(len(ad.pending)+1), e)
					cw.injected++
					ad.hb()
					ad.notify()
				}
			})
		}
		simrt.WaitQuiescent()
		if startPaused {
			w.Resume()
			simrt.WaitQuiescent()
		}
		ep.FinalSeq = wd.rec.stamp()
		_, ep.Switches, ep.LibSwitches, ep.Ticks, ep.PoolDrops, ep.Finger = simrt.Stats()
		wd.finalDone = true
		simrt.Finish()
	})
	cw.errs = wd.errsSeen
	c12Judge[T](ep, cw)
	ep.Viols = cw.viols
	return ep, cw
}

func c12Judge[T any](ep *Episode, cw *c12World) {
	wd := cw.wd
	switch ep.Res.Verdict {
	case simrt.VCrash:
		cw.add("crash", ep.Res.Steps, "%s", ep.Res.Msg)
		return
	case simrt.VHang, simrt.VStepCap:
		cw.add("C12.c", ep.Res.Steps, "the pipeline did not come to rest: %s", ep.Res.Verdict)
		return
	case simrt.VInternal:
		cw.add("internal", ep.Res.Steps, "%s", ep.Res.Msg)
		return
	}
	ad := cw.ad
	// submissions
	byID := map[string]*c12Add{}
	for i := range cw.adds {
		a := &cw.adds[i]
		// an id is carried as a JSON string: what must arrive is its JSON round trip
		// (identical for every valid UTF-8 string)
		if rt, ok := expectedOf(a.ID); ok {
			a.ID = rt.(string)
		}
		byID[a.ID] = a
		stored, refused := false, false
		for _, c := range ad.calls {
			if c.Op == "enq" && c.Seq > a.Inv && c.Seq < a.Ret && c.Task == a.Task {
				if c.OK {
					stored = true
				} else {
					refused = true
				}
			}
		}
		if a.GenMissing {
			cw.add("C12.a", a.Ret, "the worker has an id generator and this submission brought no id, but the generator was not called during the Add: the job is stored without the id the worker assigns (Add returned %v)", a.OK)
			continue
		}
		if refused && a.Encodable {
			if a.OK {
				cw.add("C12.b", a.Ret, "Add (id %q) returned true although the backend refused the entry", a.ID)
			}
			a.Encodable = false // from here on: a rejected submission, it must not arrive
			a.OK = false
			continue
		}
		if !a.Encodable {
			if a.OK {
				cw.add("C12.b", a.Ret, "Add of an unencodable payload (id %q) returned true", a.ID)
			}
			if stored {
				cw.add("C12.b", a.Ret, "Add of an unencodable payload (id %q) was refused, but the submitting task stored an entry in the backend during the call: a rejected submission must have no effect", a.ID)
			}
			continue
		}
		if !a.OK {
			cw.add("C12.b", a.Ret, "Add of an encodable payload (id %q) returned false although the adapter accepted everything", a.ID)
		}
		_ = stored
	}
	for _, c := range ad.calls {
		if c.Op == "enq" && c.OK {
			// every stored entry must come from an encodable submission or the injector (which bypasses Enqueue)
		}
	}
	// what the consumer saw
	seenIDs := map[string]int{}
	for _, s := range cw.seen {
		seenIDs[s.ID]++
		a := byID[s.ID]
		if a == nil && strings.HasPrefix(s.ID, "trail") {
			cw.add("C12.c", s.Seq, "an injected entry that is not JSON as a whole (a complete envelope followed by more bytes) ran as a job (id %q, payload %#v): it must be reported and skipped", s.ID, s.Data)
			continue
		}
		if a == nil && s.ID == "wrongtype" {
			cw.add("C12.c", s.Seq, "an injected entry whose payload encoding/json cannot decode into the payload type ran as a job (id %q, payload %#v): it must be reported and skipped", s.ID, s.Data)
			continue
		}
		if a == nil {
			// an injected entry that happened to decode: only isolation is demanded of it
			if !strings.HasPrefix(s.ID, "inj") && s.ID != "x" && s.ID != "closed-one" && cw.injected == 0 {
				cw.add("C12.a", s.Seq, "the consumer ran a job with id %q that nobody submitted", s.ID)
			}
			continue
		}
		if !a.Encodable {
			cw.add("C12.b", s.Seq, "the consumer ran job %q although its submission was rejected (payload that cannot be encoded, or entry refused by the backend)", s.ID)
			continue
		}
		if !reflect.DeepEqual(s.Data, a.Expected) {
			cw.add("C12.a", s.Seq, "job %q reached the consumer with payload %#v, want the JSON round trip of the submitted value %#v", s.ID, s.Data, a.Expected)
		}
		if seenIDs[s.ID] > 1 {
			cw.add("C12.a", s.Seq, "job %q was executed %d times", s.ID, seenIDs[s.ID])
		}
	}
	for i := range cw.adds {
		a := &cw.adds[i]
		if a.Encodable && a.OK && seenIDs[a.ID] == 0 {
			cw.add("C12.c", ep.FinalSeq, "job %q was accepted but never reached the worker function although the worker is running and at rest (%d corrupted entries were injected, %d entries still pending in the adapter)", a.ID, cw.injected, len(ad.pending))
		}
	}
	// FIFO adapter, concurrency 1: valid jobs run in the order the adapter stored them
	if !cw.prio && cw.conc == 1 {
		var order []string
		for _, id := range ad.enqIDs {
			if a := byID[id]; a != nil && a.Encodable && a.OK {
				order = append(order, id)
			}
		}
		k := 0
		for _, s := range cw.seen {
			if byID[s.ID] == nil || byID[s.ID].Foreign {
				continue
			}
			if k < len(order) && order[k] != s.ID {
				cw.add("C12.c", s.Seq, "job %q ran out of order: the adapter stored %q first (bad entries must not reorder the jobs behind them)", s.ID, order[k])
				break
			}
			k++
		}
	}
	if cw.restarted {
		// (Restart replaces the error channel: the reader of the first one misses the rest)
		return
	}
	// errors: only the library's own decode/dequeue errors, and at least one when an undecodable entry was delivered
	undec := 0
	for _, e := range ad.deliveredBad {
		if !e {
			undec++
		}
	}
	for _, e := range cw.errs {
		if !(strings.Contains(e, ErrParseJob.Error()) || strings.Contains(e, ErrFailedToCastJob.Error()) || strings.Contains(e, "invalid status") || strings.Contains(e, ErrFailedToDequeue.Error())) {
			cw.add("C12.c", ep.FinalSeq, "unexpected error on Errs(): %q", e)
		}
	}
	if undec > 0 && len(cw.errs) == 0 {
		cw.add("C12.c", ep.FinalSeq, "%d undecodable entries were delivered but no error was ever offered on Errs()", undec)
	}
	// every report that certainly found the one-slot error channel empty must arrive: with
	// all n reports that may have been sent before an undecodable entry was dequeued already
	// taken off Errs() at that moment, nothing can be in the channel, the dispatcher's
	// non-blocking send succeeds, and the reader ends up with at least n+1 reports
	for i, ev := range ad.errEvents {
		if !ev.Sure {
			continue
		}
		got := 0
		for _, s := range wd.errsSeenSeq {
			if s < ev.Seq {
				got++
			}
		}
		if got == i && len(cw.errs) < i+1 {
			cw.add("C12.c", ep.FinalSeq, "an undecodable entry was dequeued at %d, when all %d earlier reports had been read from Errs() and the channel was empty, yet only %d reports ever arrived: this entry was skipped without being reported", ev.Seq, i, len(cw.errs))
			break
		}
	}
}

// payload type table
var c12Types = []struct {
	name string
	run  func(seed uint64, tier string) (*Episode, *c12World)
}{
	{"string", func(s uint64, t string) (*Episode, *c12World) { return c12Run[string](s, t, c12String) }},
	{"int64", func(s uint64, t string) (*Episode, *c12World) {
		return c12Run[int64](s, t, func(r *simrt.Rand) int64 {
			return []int64{0, 1, -1, math.MaxInt64, math.MinInt64, 1<<53 + 1, int64(r.Intn(1000))}[r.Intn(7)]
		})
	}},
	{"uint64", func(s uint64, t string) (*Episode, *c12World) {
		return c12Run[uint64](s, t, func(r *simrt.Rand) uint64 { return []uint64{0, 1, math.MaxUint64, 1<<53 + 1, 1 << 63}[r.Intn(5)] })
	}},
	{"float64", func(s uint64, t string) (*Episode, *c12World) { return c12Run[float64](s, t, c12Float) }},
	{"bool", func(s uint64, t string) (*Episode, *c12World) {
		return c12Run[bool](s, t, func(r *simrt.Rand) bool { return r.Chance(50) })
	}},
	{"[]int", func(s uint64, t string) (*Episode, *c12World) {
		return c12Run[[]int](s, t, func(r *simrt.Rand) []int {
			return [][]int{nil, {}, {1}, {1, -2, 3}, {math.MaxInt64, math.MinInt64}}[r.Intn(5)]
		})
	}},
	{"map[string]string", func(s uint64, t string) (*Episode, *c12World) {
		return c12Run[map[string]string](s, t, func(r *simrt.Rand) map[string]string {
			if r.Chance(20) {
				return nil
			}
			return map[string]string{c12String(r): c12String(r), "k": c12String(r)}
		})
	}},
	{"struct", func(s uint64, t string) (*Episode, *c12World) {
		return c12Run[c12Nested](s, t, func(r *simrt.Rand) c12Nested { return c12NestedVal(r, 0) })
	}},
	{"*struct", func(s uint64, t string) (*Episode, *c12World) {
		return c12Run[*c12Nested](s, t, func(r *simrt.Rand) *c12Nested {
			if r.Chance(20) {
				return nil
			}
			v := c12NestedVal(r, 0)
			return &v
		})
	}},
	{"any", func(s uint64, t string) (*Episode, *c12World) {
		return c12Run[any](s, t, func(r *simrt.Rand) any { return c12Any(r, 0) })
	}},
}

func init() {
	register(&Property{ID: "C12",
		Rule:       "episodes = one payload type (string, int64, uint64, float64, bool, []int, map, nested struct, *struct, any) x edge-case biased values and ids x adapter kind x producers (worker handle or bare distributed producer) x 0-3 corrupted/foreign entries injected at seeded positions while the consumer runs; non-trivial = >=2 jobs crossed the adapter or >=1 bad entry was delivered; distinct = hash of schedule, payload type and value set",
		Standalone: c12Standalone,
	})
}

func c12Standalone(t *testing.T, p *Property) {
	start := time.Now()
	sum := &Summary{Rule: p.Rule, Property: p.ID, Shard: *fShard, Verdicts: map[string]int{}, Faults: map[string]int{}, Probes: map[string]int{}, Foreign: map[string]int{}, KnownHits: map[string]int{}, Strategies: map[string]int{}, Extra: map[string]int{}}
	fingers := map[uint64]bool{}
	deadline := start.Add(time.Duration(*fSecs * float64(time.Second)))
	run := func(seed uint64) (*Episode, *c12World, string) {
		ty := c12Types[int(seed%uint64(len(c12Types)))]
		ep, cw := ty.run(seed, *fTier)
		return ep, cw, ty.name
	}
	if *fMode == "replay" {
		b, err := os.ReadFile(*fReplay)
		var rf ReplayFile
		if err != nil || json.Unmarshal(b, &rf) != nil {
			fmt.Println("cannot read replay file")
			os.Exit(2)
		}
		ep, _, tyName := run(rf.Seed)
		fmt.Println("payload type", tyName)
		for _, v := range ep.Viols {
			fmt.Printf("VIOL %s @%d: %s\n", v.Clause, v.Seq, v.Msg)
			if v.Clause == rf.Clause {
				fmt.Printf("REPRODUCED clause=%s\nVIOLATION property=%s replay=%s\n", v.Clause, p.ID, *fReplay)
				os.Exit(1)
			}
		}
		fmt.Printf("NOT REPRODUCED: property=%s clause=%s no longer fails on this tree\n", p.ID, rf.Clause)
		os.Exit(0)
	}
	for i := 0; ; i++ {
		if (*fMaxEp > 0 && i >= *fMaxEp) || time.Now().After(deadline) {
			break
		}
		seed := mix(*fSeed, uint64(*fShard), uint64(i))
		ep, cw, tyName := run(seed)
		sum.Episodes++
		sum.Steps += ep.Res.Steps
		sum.Switches += ep.Switches
		sum.LibSwitches += ep.LibSwitches
		sum.Verdicts[ep.Res.Verdict.String()]++
		sum.Extra["type:"+tyName]++
		sum.Faults["bad_entries_injected"] += cw.injected
		bad := 0
		if cw.ad != nil {
			bad = len(cw.ad.deliveredBad)
		}
		sum.Faults["bad_entries_delivered"] += bad
		unenc := 0
		for _, a := range cw.adds {
			if !a.Encodable {
				unenc++
			}
		}
		sum.Faults["unencodable_payloads_submitted"] += unenc
		if ep.LibSwitches > 0 && (len(cw.seen) >= 2 || bad > 0) {
			sum.NonTrivial++
			fingers[ep.Finger^seed*0x9e3779b97f4a7c15] = true
			if len(sum.Samples) < 2 {
				b, _ := json.Marshal(map[string]any{"seed": seed, "payload_type": tyName, "submissions": len(cw.adds), "jobs_seen_by_consumer": len(cw.seen), "bad_entries_injected": cw.injected, "errors_on_Errs": len(cw.errs), "steps": ep.Res.Steps})
				sum.Samples = append(sum.Samples, b)
			}
		}
		var v *Viol
		for k := range ep.Viols {
			if p.owns(ep.Viols[k].Clause) {
				v = &ep.Viols[k]
				break
			}
		}
		if v == nil {
			continue
		}
		// confirm determinism, then report (the episode is a pure function of the seed)
		ep2, _, _ := run(seed)
		same := false
		for _, x := range ep2.Viols {
			if x.Clause == v.Clause {
				same = true
			}
		}
		if !same {
			sum.Infra = fmt.Sprintf("C12 violation %s of seed %d did not reproduce", v.Clause, seed)
			break
		}
		rf := &ReplayFile{Property: p.ID, Clause: v.Clause, Msg: v.Msg, Seed: seed, Steps: ep.Res.Steps, Trace: []string{"payload type " + tyName, v.Msg}}
		for _, a := range cw.adds {
			rf.Trace = append(rf.Trace, fmt.Sprintf("add id=%q ok=%v encodable=%v expected=%#v", a.ID, a.OK, a.Encodable, a.Expected))
		}
		for _, s := range cw.seen {
			rf.Trace = append(rf.Trace, fmt.Sprintf("seen @%d id=%q data=%#v", s.Seq, s.ID, s.Data))
		}
		for _, e := range cw.errs {
			rf.Trace = append(rf.Trace, "error on Errs(): "+e)
		}
		path := fmt.Sprintf("%s/%s-%s-%d.json", *fRepDir, p.ID, strings.ReplaceAll(v.Clause, ".", "_"), seed)
		writeJSON(path, rf)
		sum.Viols = append(sum.Viols, ViolOut{Clause: v.Clause, Msg: v.Msg, Seed: seed, Replay: path})
		break
	}
	for f := range fingers {
		sum.Fingers = append(sum.Fingers, f)
	}
	sum.WallS = time.Since(start).Seconds()
	if *fOut != "" {
		writeJSON(*fOut, sum)
	}
}
