package varmq

// C07, helper part: Func / ErrFunc / ResultFunc workers fed nil and non-nil
// functions (value, error, panic), single jobs and batches, concurrency 1-4.
// Runs before the generic C07 loop (first 15 % of the time budget).

import (
	"errors"
	"fmt"
	"strings"
	"time"

	"github.com/goptics/varmq/internal/simrt"
)

type c07fCase struct {
	kind    int // 0 ok, 1 error, 2 panic, 3 nil function
	n       int
	ran     bool
	gotVal  int
	gotErr  string
	read    bool
	waited  bool
}

type c07fWorld struct {
	wd    *World
	cases []*c07fCase
	viols []Viol
}

func (w *c07fWorld) add(clause string, seq uint64, format string, a ...any) {
	w.viols = append(w.viols, Viol{Clause: clause, Seq: seq, Msg: fmt.Sprintf(format, a...)})
}

type c07fReader struct {
	w   *c07fWorld
	c   *c07fCase
	er  EnqueuedResultJob[int]
	ee  EnqueuedErrJob
	ej  EnqueuedJob
}

func (r *c07fReader) run() {
	switch {
	case r.er != nil:
		v, err := r.er.Result()
		r.c.gotVal, r.c.gotErr = v, errText(err)
	case r.ee != nil:
		r.c.gotErr = errText(r.ee.Err())
	default:
		r.ej.Wait()
	}
	r.c.read = true
}

func c07fEpisode(seed uint64) (*Episode, *c07fWorld) {
	r := simrt.NewRand(seed)
	pf := baseProfile()
	var cfg Cfg
	simParams(r, &cfg, pf)
	cfg.Prop = "C07"
	cfg.Conc = pick(r, []int{1, 2, 3, 4})
	wk := r.Intn(3)
	cfg.WKind = wk
	prog := &Program{}
	ep := &Episode{Cfg: cfg, Prog: prog, Seed: seed}
	wd := newWorld(cfg, prog)
	ep.W = wd
	fw := &c07fWorld{wd: wd}
	n := 2 + r.Intn(6)
	for i := 0; i < n; i++ {
		fw.cases = append(fw.cases, &c07fCase{kind: r.Intn(4), n: i})
	}
	sim := simrt.New(simOptions(cfg, seed, numSites, nil, false))
	var failed, successful func() uint64
	ep.Res = sim.Run(func() {
		wd.rootTaskID = simrt.CurID()
		switch wk {
		case wkPlain:
			w := NewWorker(Func(), WithConcurrency(cfg.Conc))
			wd.w = w
			failed, successful = w.Metrics().Failed, w.Metrics().Successful
			q := w.BindQueue()
			for _, c := range fw.cases {
				c := c
				var f func()
				switch c.kind {
				case 0, 1:
					f = func() { c.ran = true }
				case 2:
					f = func() { c.ran = true; panic(expectedPanicText(c.n)) }
				}
				h, ok := q.Add(f)
				if !ok {
					fw.add("C07.a", simrt.Step(), "Add of a func job was rejected")
					continue
				}
				rd := &c07fReader{w: fw, c: c, ej: h}
				simrt.GoHarness("reader", rd.run)
			}
		case wkErr:
			w := NewErrWorker(ErrFunc(), WithConcurrency(cfg.Conc))
			wd.w = w
			failed, successful = w.Metrics().Failed, w.Metrics().Successful
			q := w.BindQueue()
			for _, c := range fw.cases {
				c := c
				var f func() error
				switch c.kind {
				case 0:
					f = func() error { c.ran = true; return nil }
				case 1:
					f = func() error { c.ran = true; return errors.New(expectedErrText(c.n)) }
				case 2:
					f = func() error { c.ran = true; panic(expectedPanicText(c.n)) }
				}
				h, ok := q.Add(f)
				if !ok {
					fw.add("C07.a", simrt.Step(), "Add of a func job was rejected")
					continue
				}
				rd := &c07fReader{w: fw, c: c, ee: h, ej: h}
				simrt.GoHarness("reader", rd.run)
			}
		default:
			w := NewResultWorker(ResultFunc[int](), WithConcurrency(cfg.Conc))
			wd.w = w
			failed, successful = w.Metrics().Failed, w.Metrics().Successful
			q := w.BindQueue()
			for _, c := range fw.cases {
				c := c
				var f func() (int, error)
				switch c.kind {
				case 0:
					f = func() (int, error) { c.ran = true; return expectedValue(c.n), nil }
				case 1:
					f = func() (int, error) { c.ran = true; return 0, errors.New(expectedErrText(c.n)) }
				case 2:
					f = func() (int, error) { c.ran = true; panic(expectedPanicText(c.n)) }
				}
				h, ok := q.Add(f)
				if !ok {
					fw.add("C07.a", simrt.Step(), "Add of a func job was rejected")
					continue
				}
				rd := &c07fReader{w: fw, c: c, er: h, ej: h}
				simrt.GoHarness("reader", rd.run)
			}
		}
		simrt.WaitQuiescent()
		ep.FinalSeq = wd.rec.stamp()
		_, ep.Switches, ep.LibSwitches, ep.Ticks, ep.PoolDrops, ep.Finger = simrt.Stats()
		simrt.Finish()
	})
	final := ep.FinalSeq
	switch ep.Res.Verdict {
	case simrt.VCrash:
		fw.add("crash", ep.Res.Steps, "%s", ep.Res.Msg)
	case simrt.VHang, simrt.VStepCap:
		fw.add("livelock", ep.Res.Steps, "helper-function workers did not come to rest: %s", ep.Res.Verdict)
	case simrt.VInternal:
		fw.add("internal", ep.Res.Steps, "%s", ep.Res.Msg)
	case simrt.VDone:
		wantFailed := 0
		for _, c := range fw.cases {
			bad := c.kind == 2 || c.kind == 3 || (c.kind == 1 && wk != wkPlain)
			if bad {
				wantFailed++
			}
			if !c.read {
				fw.add("C07.e", final, "handle of func job %d (kind %d) never completed although everything is at rest: the pool was disabled by an earlier job", c.n, c.kind)
				continue
			}
			if c.kind != 3 && !c.ran {
				fw.add("C07.e", final, "func job %d was never invoked", c.n)
			}
			if wk == wkPlain {
				continue
			}
			switch c.kind {
			case 0:
				if c.gotErr != "" || (wk == wkResult && c.gotVal != expectedValue(c.n)) {
					fw.add("C07.a", final, "func job %d: got (%d, %q), want (%d, nil)", c.n, c.gotVal, c.gotErr, expectedValue(c.n))
				}
			case 1:
				if c.gotErr != expectedErrText(c.n) {
					fw.add("C07.a", final, "func job %d: got error %q, want %q", c.n, c.gotErr, expectedErrText(c.n))
				}
			case 2:
				if !strings.Contains(c.gotErr, expectedPanicText(c.n)) {
					fw.add("C07.a", final, "func job %d panicked with %q but its handle reports %q", c.n, expectedPanicText(c.n), c.gotErr)
				}
			case 3:
				if c.gotErr == "" {
					fw.add("C07.a", final, "a nil function was submitted as job %d but its handle reports no error", c.n)
				}
			}
		}
		if failed != nil {
			if int(failed()) != wantFailed || int(successful()) != len(fw.cases)-wantFailed {
				fw.add("C07.d", final, "helper worker kind %d: Failed=%d Successful=%d, want %d and %d", wk, failed(), successful(), wantFailed, len(fw.cases)-wantFailed)
			}
		}
	}
	ep.Viols = fw.viols
	return ep, fw
}

func c07Pre(p *Property, sum *Summary, fingers map[uint64]bool, deadline time.Time, budget time.Duration) bool {
	end := time.Now().Add(budget * 15 / 100)
	for i := 0; time.Now().Before(end); i++ {
		seed := mix(*fSeed^0xc07f, uint64(*fShard), uint64(i))
		ep, fw := c07fEpisode(seed)
		sum.Episodes++
		sum.Steps += ep.Res.Steps
		sum.Verdicts[ep.Res.Verdict.String()]++
		sum.Extra["helper_func_episodes"]++
		nilf := 0
		for _, c := range fw.cases {
			if c.kind == 3 {
				nilf++
			}
		}
		sum.Faults["nil_functions_submitted"] += nilf
		if ep.LibSwitches > 0 {
			sum.NonTrivial++
			fingers[ep.Finger^seed] = true
		}
		v := p.firstOwned(ep.Viols)
		if v == nil {
			continue
		}
		ep2, _ := c07fEpisode(seed)
		v2 := p.firstOwned(ep2.Viols)
		if v2 == nil || v2.Clause != v.Clause {
			sum.Infra = fmt.Sprintf("C07 helper episode %d: violation %s did not reproduce", seed, v.Clause)
			return true
		}
		rf := &ReplayFile{Property: p.ID, Clause: v.Clause, Msg: v.Msg, Seed: seed, Steps: ep.Res.Steps, Trace: []string{"Func/ErrFunc/ResultFunc helper workers", v.Msg}}
		rf.Cfg.Prop = "C07F"
		path := fmt.Sprintf("%s/%s-%s-%d.json", *fRepDir, p.ID, strings.ReplaceAll(v.Clause, ".", "_"), seed)
		writeJSON(path, rf)
		sum.Viols = append(sum.Viols, ViolOut{Clause: v.Clause, Msg: v.Msg, Seed: seed, Replay: path})
		return true
	}
	return false
}
