package varmq

// Simulated external adapter: the "network and disk" of varmq (DESIGN §2.6,
// §5 C11).  Every method is one atomic step preceded by a yield.  Only the
// fields of simAdapter survive a simulated crash.

import (
	"encoding/json"
	"fmt"
	"sort"
	"sync"
	"time"

	"github.com/goptics/varmq/internal/simrt"
)

type adEntry struct {
	Bytes   []byte
	Raw     any // non-[]byte foreign entry (fault)
	Prio    int
	Arrival int
	Sub     int // submission number, -1 for foreign/corrupt entries
	Bad     int // 0 valid, >0 kind of corruption
}

type adUnacked struct {
	ID    string
	E     adEntry
	Inc   int // incarnation that received it
	Fn    bool // handed to the worker function
	FnDone bool
}

// adErrEv: a dequeue the consuming dispatcher answers with a report on Errs() - certainly
// (an entry that cannot be decoded) or possibly (a refused dequeue, an entry that may decode).
type adErrEv struct {
	Seq  uint64
	Sure bool
}

type adCall struct {
	Seq  uint64
	Op   string // enq deq ack len purge
	Sub  int
	ID   string
	OK   bool
	Task int
}

type simAdapter struct {
	// a real adapter is internally synchronised: its calls are ordered by a real
	// lock, which is also what hands the stored bytes from producer to consumer
	real    sync.Mutex
	root    *World
	prio    bool
	cfg     QCfg
	pending []adEntry
	unacked []adUnacked
	acked   []string
	arrival int
	ackSeq  int
	closed  bool
	subs    []func(string)
	subOwner []*World
	subAt    []uint64
	calls   []adCall
	faultsOn bool
	pendingCut bool
	inc     int
	// counters
	FiredEnq, FiredDeq, FiredAck, FiredStall, Dups, Delays int
	NoAckIDs int
	big      simrt.Mutex
	injected int // undecodable entries put into the backend by opInject
	FiredAckLost int
	Others int // notifications with an action other than "enqueued"
	lens     []lenObs
	enqIDs   []string // job ids in the order the adapter stored them (parsed from the bytes)
	deliveredBad []bool // per delivered corrupted entry: might it still decode?
	burstLeft    int       // FDeqBurst refusals still to come
	errEvents    []adErrEv // dequeues after which the consumer's dispatcher may (or must) report an error
	notifies []int // per subscriber: delivered notifications
	notifyAt [][]uint64 // per subscriber: when each one was delivered
	lostRace int
}

type adQ struct{ *simAdapter }
type adPQ struct{ *simAdapter }

func (wd *World) adapterFor(qc QCfg, prio bool) *simAdapter {
	if wd.root.sharedAd != nil {
		return wd.root.sharedAd
	}
	a := &simAdapter{root: wd.root, prio: prio, cfg: qc, faultsOn: true, burstLeft: qc.FDeqBurst}
	if qc.Kind >= qkDist && wd.root.cfg.Consumers > 0 {
		wd.root.sharedAd = a
	}
	return a
}

// hb is the adapter's internal lock seen from outside: an acquire on entry and
// a release on exit of every call (the bodies are atomic steps; the real lock
// is never held across a yield).
func (a *simAdapter) hb() { a.real.Lock(); a.real.Unlock() }

func (a *simAdapter) log(op string, sub int, id string, ok bool) {
	a.calls = append(a.calls, adCall{Seq: a.root.rec.stamp(), Op: op, Sub: sub, ID: id, OK: ok, Task: simrt.CurID()})
	a.pendingCut = true
}

// cutPoint: the process may die right after any adapter call (called at the end
// of each method, when the adapter's own state is consistent).
func (a *simAdapter) cutPoint() {
	if a.pendingCut {
		a.pendingCut = false
		a.root.cut()
	}
}

func subOfBytes(b []byte) int {
	var v struct {
		Data *int `json:"data"`
	}
	if json.Unmarshal(b, &v) != nil || v.Data == nil {
		return -1
	}
	return *v.Data
}

func (a *simAdapter) enqueue(item any, prio int) bool {
	simrt.YieldAlways()
	if a.cfg.NSync {
		// a backend that runs the subscribers' callbacks itself, inside Enqueue, under the
		// one lock that also guards Len and the dequeues: the callback must not call back
		// into the backend (only in episodes without worker-level barrier calls, see DESIGN)
		a.big.Lock()
		defer a.big.Unlock()
	}
	a.hb()
	defer a.cutPoint()
	defer a.hb()
	b, isBytes := item.([]byte)
	sub := -1
	if isBytes {
		sub = subOfBytes(b)
	}
	if a.closed {
		a.log("enq", sub, "", false)
		a.root.rec.adEnqRefused(a, sub)
		return false
	}
	if a.faultsOn && a.cfg.FEnq > 0 && simrt.Chance(a.cfg.FEnq) {
		a.FiredEnq++
		a.log("enq", sub, "", false)
		a.root.rec.adEnqRefused(a, sub)
		return false
	}
	a.arrival++
	e := adEntry{Prio: prio, Arrival: a.arrival, Sub: sub}
	if isBytes {
		// the backend keeps the very slice it was handed (as any in-memory adapter does, the
		// repository's mocks included): the producer must not reuse that memory
		e.Bytes = b
		var idv struct {
			ID string `json:"id"`
		}
		if json.Unmarshal(b, &idv) == nil {
			a.enqIDs = append(a.enqIDs, idv.ID)
		}
	} else {
		e.Raw = item
		e.Bad = 9
	}
	a.pending = append(a.pending, e)
	a.log("enq", sub, "", true)
	a.root.rec.adEnq(a, sub)
	a.hb()
	a.notify()
	return true
}

func (a adQ) Enqueue(item any) bool            { return a.enqueue(item, 0) }
func (a adPQ) Enqueue(item any, prio int) bool { return a.enqueue(item, prio) }

// head returns the index of the entry to hand out next.
func (a *simAdapter) head() int {
	if len(a.pending) == 0 {
		return -1
	}
	if !a.prio {
		return 0
	}
	best := 0
	for i, e := range a.pending {
		b := a.pending[best]
		if e.Prio < b.Prio || (e.Prio == b.Prio && e.Arrival < b.Arrival) {
			best = i
		}
	}
	return best
}

func (a *simAdapter) DequeueWithAckId() (any, bool, string) {
	simrt.YieldAlways()
	if a.cfg.NSync {
		a.big.Lock()
		defer a.big.Unlock()
	}
	a.hb()
	defer a.cutPoint()
	defer a.hb()
	i := a.head()
	if i < 0 {
		a.lostRace++
		a.log("deq", -1, "", false)
		a.errEvents = append(a.errEvents, adErrEv{a.calls[len(a.calls)-1].Seq, false})
		return nil, false, ""
	}
	if a.faultsOn && a.burstLeft > 0 {
		a.burstLeft--
		a.FiredDeq++
		a.log("deq", -1, "", false)
		a.errEvents = append(a.errEvents, adErrEv{a.calls[len(a.calls)-1].Seq, false})
		return nil, false, ""
	}
	if a.faultsOn && a.cfg.FDeq > 0 && simrt.Chance(a.cfg.FDeq) {
		a.FiredDeq++
		a.log("deq", -1, "", false)
		a.errEvents = append(a.errEvents, adErrEv{a.calls[len(a.calls)-1].Seq, false})
		return nil, false, ""
	}
	e := a.pending[i]
	a.pending = removeAt(a.pending, i)
	id := ""
	if a.faultsOn && a.cfg.FNoAckID > 0 && simrt.Chance(a.cfg.FNoAckID) {
		// a delivery the backend wants no acknowledgement for: it is handed out for good
		a.NoAckIDs++
	} else {
		a.ackSeq++
		id = fmt.Sprintf("ack-%d", a.ackSeq)
		a.unacked = append(a.unacked, adUnacked{ID: id, E: e, Inc: a.inc})
	}
	a.log("deq", e.Sub, id, true)
	if a.cfg.Kind >= qkDist {
		a.notifyOther("dequeued")
	}
	if e.Bad != 0 {
		a.deliveredBad = append(a.deliveredBad, e.Bad == 2 || e.Bad == 5)
		a.errEvents = append(a.errEvents, adErrEv{a.calls[len(a.calls)-1].Seq, !(e.Bad == 2 || e.Bad == 5)})
		a.root.rec.probes[pbBadEntry]++
	}
	a.root.rec.adDeq(a, e.Sub, id)
	if e.Raw != nil {
		return e.Raw, true, id
	}
	return append([]byte(nil), e.Bytes...), true, id
}

// Dequeue without acknowledgement: the item leaves the adapter for good.
func (a *simAdapter) Dequeue() (any, bool) {
	simrt.YieldAlways()
	a.hb()
	defer a.cutPoint()
	defer a.hb()
	i := a.head()
	if i < 0 {
		a.log("deq-noack", -1, "", false)
		return nil, false
	}
	e := a.pending[i]
	a.pending = removeAt(a.pending, i)
	a.log("deq-noack", e.Sub, "", true)
	a.root.rec.adDeqNoAck(a, e.Sub)
	if e.Raw != nil {
		return e.Raw, true
	}
	return append([]byte(nil), e.Bytes...), true
}

func (a *simAdapter) Acknowledge(id string) bool {
	simrt.YieldAlways()
	a.hb()
	defer a.cutPoint()
	defer a.hb()
	if a.faultsOn && a.cfg.FAckStall > 0 && simrt.Chance(a.cfg.FAckStall) {
		// stalled backend: the acknowledgement does not return until the harness
		// releases it (next Settle, or the epilogue); the calling pool goroutine
		// keeps its concurrency slot meanwhile
		a.FiredStall++
		root := a.root
		ep := root.stallEpoch
		root.stalledNow++
		a.hb()
		simrt.Block(func() bool { return root.stallEpoch > ep })
		a.hb()
		root.stalledNow--
	}
	if a.faultsOn && a.cfg.FAck > 0 && simrt.Chance(a.cfg.FAck) {
		a.FiredAck++
		a.log("ack", -1, id, false)
		a.root.rec.adAck(a, id, false, true)
		return false
	}
	for i, u := range a.unacked {
		if u.ID == id {
			a.unacked = removeAt(a.unacked, i)
			a.acked = append(a.acked, id)
			a.log("ack", u.E.Sub, id, true)
			a.root.rec.adAckKnown(a, u, id)
			if a.faultsOn && a.cfg.FAckLost > 0 && simrt.Chance(a.cfg.FAckLost) {
				// the acknowledgement is applied, its answer is lost: the caller is told "refused"
				a.FiredAck++
				a.FiredAckLost++
				return false
			}
			return true
		}
	}
	a.log("ack", -1, id, false)
	a.root.rec.adAck(a, id, false, false)
	return false
}

func (a *simAdapter) Len() int {
	simrt.YieldAlways()
	if a.cfg.NSync {
		a.big.Lock()
		defer a.big.Unlock()
	}
	a.hb()
	defer a.cutPoint()
	defer a.hb()
	if a.root.cfg.Prop == "C15" {
		a.lens = append(a.lens, lenObs{simrt.Step(), len(a.pending), simrt.CurID(), inSelection()})
	}
	return len(a.pending)
}

func (a *simAdapter) Values() []any {
	simrt.YieldAlways()
	a.hb()
	defer a.cutPoint()
	defer a.hb()
	out := make([]any, 0, len(a.pending))
	idx := make([]int, len(a.pending))
	for i := range idx {
		idx[i] = i
	}
	if a.prio {
		sort.SliceStable(idx, func(x, y int) bool {
			ex, ey := a.pending[idx[x]], a.pending[idx[y]]
			if ex.Prio != ey.Prio {
				return ex.Prio < ey.Prio
			}
			return ex.Arrival < ey.Arrival
		})
	}
	for _, i := range idx {
		if a.pending[i].Raw != nil {
			out = append(out, a.pending[i].Raw)
		} else {
			out = append(out, append([]byte(nil), a.pending[i].Bytes...))
		}
	}
	return out
}

func (a *simAdapter) Purge() {
	simrt.YieldAlways()
	a.hb()
	defer a.cutPoint()
	defer a.hb()
	for _, e := range a.pending {
		a.root.rec.adPurged(a, e.Sub)
	}
	a.pending = nil
	a.log("purge", -1, "", true)
}

func (a *simAdapter) Close() error {
	simrt.YieldAlways()
	a.hb()
	defer a.cutPoint()
	defer a.hb()
	a.closed = true
	return nil
}

func (a *simAdapter) Subscribe(fn func(action string)) {
	simrt.YieldAlways()
	a.hb()
	defer a.cutPoint()
	defer a.hb()
	a.subs = append(a.subs, fn)
	a.notifies = append(a.notifies, 0)
	owner := a.root.binding
	if owner == nil {
		owner = a.root
	}
	a.subOwner = append(a.subOwner, owner)
	a.subAt = append(a.subAt, a.root.rec.stamp())
}

// notify announces one successful enqueue to every subscriber, each through its
// own delivery task (as a pub/sub client goroutine would), with seeded delay
// and duplication.
func (a *simAdapter) notify() {
	for i := range a.subs {
		n := 1
		if a.faultsOn && a.cfg.NDup > 0 && simrt.Chance(a.cfg.NDup) {
			n = 2
			a.Dups++
		}
		for k := 0; k < n; k++ {
			d := 0
			if a.cfg.NDelay > 0 {
				d = simrt.Choose(a.cfg.NDelay + 1)
				if d > 0 {
					a.Delays++
				}
			}
			nt := &notifyTask{a: a, i: i, d: d}
			if a.cfg.NSync {
				nt.d = 0
				nt.run() // synchronously, on the enqueuing goroutine, under the backend's lock
				continue
			}
			simrt.GoHarness("adapter.notify", nt.run)
		}
	}
}

type notifyTask struct {
	a *simAdapter
	i int
	d int
	action string // "" = "enqueued"
}

// notifyOther publishes an action other than "enqueued" (a backend that also announces
// dequeues and acknowledgements): subscribers must ignore it.
func (a *simAdapter) notifyOther(action string) {
	if a.cfg.NOther == 0 || !simrt.Chance(a.cfg.NOther) {
		return
	}
	a.Others++
	for i := range a.subs {
		nt := &notifyTask{a: a, i: i, action: action}
		simrt.GoHarness("adapter.notify", nt.run)
	}
}

func (n *notifyTask) run() {
	if n.d > 0 {
		simrt.Sleep(time.Duration(n.d) * timeUnit)
	}
	if o := n.a.subOwner[n.i]; o != nil && o.crashed {
		return // the subscriber's process is dead
	}
	if n.action != "" {
		n.a.root.rec.stamp()
		n.a.subs[n.i](n.action)
		return
	}
	n.a.notifies[n.i]++
	at := n.a.root.rec.stamp()
	for len(n.a.notifyAt) <= n.i {
		n.a.notifyAt = append(n.a.notifyAt, nil)
	}
	n.a.notifyAt[n.i] = append(n.a.notifyAt[n.i], at)
	n.a.subs[n.i]("enqueued")
}

// recoverAfterCrash is what a durable adapter does when consumers reconnect:
// deliveries that were never acknowledged become pending again.
func (a *simAdapter) recoverAfterCrash() {
	for _, u := range a.unacked {
		a.pending = append(a.pending, u.E)
	}
	sort.SliceStable(a.pending, func(i, j int) bool { return a.pending[i].Arrival < a.pending[j].Arrival })
	a.unacked = nil
	a.inc++
	a.subs = nil
	a.subOwner = nil
	a.subAt = nil
	a.notifies = nil
	a.faultsOn = false
}

// inject places a foreign or corrupted entry at a position of pending.
func (a *simAdapter) inject(pos int, e adEntry) {
	a.arrival++
	e.Arrival = a.arrival
	if pos > len(a.pending) {
		pos = len(a.pending)
	}
	out := make([]adEntry, 0, len(a.pending)+1)
	for i := range a.pending {
		if i == pos {
			out = append(out, e)
		}
		out = append(out, a.pending[i])
	}
	if pos >= len(a.pending) {
		out = append(out, e)
	}
	a.pending = out
}
