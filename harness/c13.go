package varmq

// C13 — distributed consumers drain the shared adapter; each item is run by
// exactly one of them (DESIGN §5 C13).

import (
	"time"

	"github.com/goptics/varmq/internal/simrt"
)

func init() {
	register(&Property{ID: "C13",
		Rule: "episodes with 1-4 consumer workers on one simulated distributed adapter (plain/priority), producers through a consumer's handle or a bare producer, consumers bound before or after items exist, notifications delayed/reordered/duplicated; non-trivial = >=2 consumers executed jobs or >=1 item was present at bind time; distinct = schedule/program hash",
		Gen:   genC13,
		Hook:  hookC13,
		Judge: func(j *judgeCtx) {
			judgeC13(j)
			if len(j.wd.consumers) == 0 && j.wd.cfg.Consumers <= 1 {
				// a single consumer: an announced item must be pulled as soon as a slot is
				// free, not only when a running job ends (gated quiescence, C03.b)
				judgeConservation(j)
			}
		},
		Owns: []string{"C03.b"},
		NonTrivial: func(ep *Episode) bool {
			seen := map[int]bool{}
			for _, f := range ep.W.rec.fns {
				seen[f.W] = true
			}
			return len(seen) >= 2 || ep.W.itemsAtBind > 0
		},
	})
}

func genC13(r *simrt.Rand, tier string) (Cfg, *Program) {
	pf := baseProfile()
	pf.WKinds = []int{wkPlain}
	pf.QKinds = []int{qkDist, qkDistPrio}
	pf.WrapPct = 0
	pf.Conc = []int{1, 1, 2, 3}
	pf.Producers, pf.Adds = [2]int{1, 3}, [2]int{1, 6}
	pf.GatedPct, pf.DelayPct, pf.MaxDelay = pick(r, []int{0, 40}), 40, 3
	pf.AdFaults = r.Chance(50) // only notification duplication matters here (no ack/deq faults below)
	pf.Releaser = 60
	pf.PreloadPct = 35 // items already in the backend when the first consumer binds
	if r.Chance(30) {
		// a caller polling WaitUntilFinished takes the worker's lock over and over while
		// notifications arrive
		pf.Waiters, pf.WaitOps = [2]int{1, 1}, [2]int{2, 6}
		pf.Wait = []wop{{opWUFw, 1}}
	}
	if r.Chance(30) {
		// the first consumer is paused and resumed while others keep submitting: notifications
		// that arrive meanwhile are submissions too, and the items are drained after Resume
		pf.Ctrl = []wop{{opPause, 3}, {opResume, 4}, {opPauseAndWait, 1}, {opSettle, 1}}
		pf.CtrlOps = [2]int{1, 4}
		pf.CtrlGapPct = 30
	}
	switch r.Intn(10) {
	case 0, 1:
		// the first consumer has a context and is restarted (or stopped and restarted) while
		// items keep being announced: the new run must pull them like the first one did
		pf.UseCtxPct = 70
		pf.Ctrl = []wop{{opRestart, 4}, {opStop, 1}, {opPause, 1}, {opResume, 2}, {opSettle, 2}, {opTune, 2}}
		pf.CtrlOps = [2]int{1, 4}
		pf.CtrlGapPct = 40
	case 2:
		// its context is cancelled while it is dispatching: whatever it has taken out of the
		// shared backend by then is executed, the rest stays there for the others
		pf.UseCtxPct = 100
		pf.Ctrl = []wop{{opCancelCtx, 1}}
		pf.CtrlOps = [2]int{1, 1}
		pf.CtrlGapPct = 70
	}
	if len(pf.Ctrl) == 0 && r.Chance(10) {
		// a warm pool with several idle goroutines kept (raised min-idle ratio, no expiry) and the
		// consumer's pool resized while announcements keep arriving: an item handed to a pool
		// goroutine that the resize retires at that moment is taken from the backend for nothing
		pf.Conc = []int{3, 4, 8}
		pf.Ratio = []int{50, 100, 100}
		pf.Expiry = []int{0}
		pf.WarmPct = 100
		pf.Ctrl = []wop{{opTune, 6}, {opSettle, 1}}
		pf.CtrlOps = [2]int{2, 6}
		pf.CtrlGapPct = 30
		pf.Tunes = []int{1, 2, 3, 4, 8}
		pf.Adds = [2]int{3, 8}
	}
	if pf.Waiters[1] == 0 && len(pf.Ctrl) == 0 {
		// (no worker-level barrier call in the program: WaitUntilFinished holds the worker's
		// lock while it asks the backend for its length, which cannot work with a backend
		// that calls back under its own lock - see DESIGN 11.4)
		pf.NSyncPct = 25
	}
	c, p := generate(r, pf)
	c.Consumers = 1 + r.Intn(4)
	for i := range c.Queues {
		// a transiently refused dequeue leaves the item in the backend: the consumers must
		// still drain it (acknowledgement / enqueue faults belong to C11)
		c.Queues[i].FAck, c.Queues[i].FEnq = 0, 0
		c.Queues[i].FDeq = pick(r, []int{0, 0, 25})
	}
	if r.Chance(6) {
		// sustained contention as one consumer sees it: the backend answers a long run of
		// dequeues with "nothing for you" while it holds items (the others were faster every
		// time, or it is briefly unavailable).  Each one is an error, not a reason to stand
		// still: the items are executed as soon as the backend hands them out (C13.e).
		c.Queues[0].FDeqBurst = 19 + r.Intn(10)
		if r.Chance(70) {
			c.Consumers = 1
		}
	}
	// preloaded backend and nobody submits afterwards: no notification will ever arrive,
	// the consumers must find the items on their own when they are bound
	hasPre := false
	for _, sb := range p.Subs {
		if sb.Pre {
			hasPre = true
		}
	}
	if hasPre && r.Chance(50) {
		for ti := range p.Tasks {
			var keep []Op
			for _, op := range p.Tasks[ti] {
				if op.K != opAdd && op.K != opAddAll {
					keep = append(keep, op)
				}
			}
			p.Tasks[ti] = keep
		}
	}
	// half of the submissions go through a bare producer
	for ti := range p.Tasks {
		for oi := range p.Tasks[ti] {
			if p.Tasks[ti][oi].K == opAdd && r.Chance(50) {
				p.Tasks[ti][oi].K = opAddBare
			}
		}
	}
	// further consumers appear at seeded points
	var ops []Op
	for i := 1; i < c.Consumers; i++ {
		switch r.Intn(3) {
		case 0:
			ops = append(ops, Op{K: opYield})
		case 1:
			ops = append(ops, Op{K: opSettle})
		}
		ops = append(ops, Op{K: opSpawn, A: 1 + r.Intn(3)})
	}
	if len(ops) > 0 {
		if r.Chance(50) {
			p.Tasks = append([][]Op{ops}, p.Tasks...)
		} else {
			p.Tasks = append(p.Tasks, ops)
		}
	}
	return c, p
}

func hookC13(wd *World) {
	wd.runProgram()
	wd.epilogue = true
	for _, s := range wd.subs {
		if s.Gated && !s.gate.IsOpen() {
			s.gate.Open()
		}
	}
	simrt.WaitQuiescent()
	if wd.w.Status() == "Paused" {
		c := wd.rec.begin(opResume, -1, -1)
		c.Err = errText(wd.w.Resume())
		wd.rec.end(c)
		simrt.WaitQuiescent()
	}
	// per-consumer submitted counters
	all := append([]*World{wd}, wd.consumers...)
	for _, c := range all {
		call := wd.rec.begin(opSample, -1, -1)
		call.Arg = 50
		call.W = c.cidx
		call.Val = int(c.w.Metrics().Submitted())
		call.Str = c.w.Status()
		call.AtRest = true
		wd.rec.end(call)
	}
	simrt.WaitQuiescent()
}

func judgeC13(j *judgeCtx) {
	wd := j.wd
	if j.ep.Res.Verdict != simrt.VDone {
		return
	}
	var ad *simAdapter
	for _, q := range wd.qs {
		if q.ad != nil {
			ad = q.ad
		}
	}
	if ad == nil {
		return
	}
	// bounded progress once the refusals stop: nothing in these episodes takes simulated time
	// but the jobs' own delays (milliseconds), so a system that is at rest only after seconds
	// of simulated time has been standing still with work to do
	if wd.cfg.Queues[0].FDeqBurst > 0 && j.ep.Res.Now > 5*time.Second {
		j.add("C13.e", j.final, "after %d consecutive refused dequeues the consumers came to rest only at simulated time %v (the programme's own delays are a few milliseconds): a failed dequeue is an error, not a stop", wd.cfg.Queues[0].FDeqBurst, j.ep.Res.Now)
	}
	for _, s := range wd.subs {
		if len(s.Entries) >= 2 {
			j.add("C13.a", s.Entries[1], "item %d was executed %d times (consumers %v)", s.N, len(s.Entries), s.Worker)
		}
	}
	// which consumers are running at rest (the first one may have been stopped, or its
	// context cancelled, by the program)
	running := map[int]bool{}
	for _, c := range j.r.calls {
		if c.K == opSample && c.Arg == 50 {
			running[c.W] = c.Str == "Running"
		}
	}
	// taken out of the shared backend but never handed to the worker function: nobody else
	// can see the item any more
	for _, u := range ad.unacked {
		if !u.Fn && u.E.Sub >= 0 {
			j.add("C13.d", j.final, "item %d was taken from the shared adapter (delivery %s) but at rest it has never been handed to a worker function: it is lost to the other consumers", u.E.Sub, u.ID)
		}
	}
	// drained at rest: an item is an obligation when some running consumer either was fully
	// subscribed before the item's enqueue began, or began binding after it was stored
	for _, e := range ad.pending {
		var enqInv, enqDone uint64
		for _, c := range ad.calls {
			if c.Op == "enq" && c.Sub == e.Sub && c.OK {
				enqDone = c.Seq
			}
		}
		if e.Sub >= 0 && e.Sub < len(wd.subs) {
			enqInv = wd.subs[e.Sub].AddInv
		}
		oblig := false
		for i, at := range ad.subAt {
			if at < enqInv && i < len(ad.subOwner) && ad.subOwner[i] != nil && running[ad.subOwner[i].cidx] {
				oblig = true
			}
		}
		all := append([]*World{wd}, wd.consumers...)
		for _, c := range all {
			if len(c.qs) > 0 && c.qs[0].boundAt > enqDone && enqDone != 0 && running[c.cidx] {
				oblig = true
			}
		}
		if oblig {
			j.add("C13.b", j.final, "item %d is still pending in the shared adapter although every consumer is running and at rest", e.Sub)
		}
	}
	// Submitted == notifications delivered to that consumer's handler
	for _, c := range j.r.calls {
		if c.K == opSample && c.Arg == 50 {
			n := 0
			for i, o := range ad.subOwner {
				if o != nil && o.cidx == c.W {
					n += ad.notifies[i]
				}
			}
			if c.Val != n {
				j.add("C13.c", c.Ret, "consumer %d: Submitted() = %d but %d 'enqueued' notifications were delivered to it", c.W, c.Val, n)
			}
		}
	}
}
