package varmq

// One episode = one configuration + one client program + one schedule/fault
// stream, run in a fresh Sim (DESIGN §4.1).

import (
	"time"

	"github.com/goptics/varmq/internal/simrt"
)

type Viol struct {
	Clause string `json:"clause"`
	Seq    uint64 `json:"seq"`
	Msg    string `json:"msg"`
}

type Episode struct {
	Cfg    Cfg
	Prog   *Program
	W      *World
	Res    simrt.Result
	Viols  []Viol
	FinalSeq uint64
	Finger uint64
	Switches, LibSwitches, Ticks, PoolDrops uint64
	Diverged bool
	Seed     uint64
	RaceTexts    []string
	HarnessRaces int
}

type errReader struct {
	wd *World
	ch <-chan error
}

func (e *errReader) run() {
	for {
		simrt.RecvWait(e.ch)
		v, ok := <-e.ch
		if !ok {
			return
		}
		e.wd.errsSeenSeq = append(e.wd.errsSeenSeq, e.wd.rec.stamp())
		e.wd.errsSeen = append(e.wd.errsSeen, errText(v))
	}
}

func (wd *World) startErrReader() {
	if !wd.cfg.ErrReader {
		return
	}
	ch := wd.w.Errs()
	if ch == nil {
		return
	}
	er := &errReader{wd: wd, ch: ch}
	simrt.GoHarness("errs-reader", er.run)
}

type rootTask struct {
	wd   *World
	ep   *Episode
	hook func(wd *World) // property-specific driver replacing the generic program run (may be nil)
}

func (rt *rootTask) run() {
	wd := rt.wd
	wd.rootTaskID = simrt.CurID()
	wd.setup()
	wd.startErrReader()
	if rt.hook != nil {
		rt.hook(wd)
	} else {
		wd.runProgram()
		wd.runEpilogue()
	}
	rt.ep.FinalSeq = wd.rec.stamp()
	_, rt.ep.Switches, rt.ep.LibSwitches, rt.ep.Ticks, rt.ep.PoolDrops, rt.ep.Finger = simrt.Stats()
	wd.finalDone = true
	simrt.Finish()
}

func (wd *World) runProgram() {
	for _, ops := range wd.prog.Tasks {
		for _, op := range ops {
			if op.K == opWarmDone {
				wd.hasWarm = true
			}
		}
	}
	for i, ops := range wd.prog.Tasks {
		st := &scriptTask{wd: wd, idx: i, ops: ops}
		wd.scripts = append(wd.scripts, st)
		simrt.GoHarness("client", st.run)
	}
	simrt.WaitQuiescent()
}

// runEpilogue: stop injecting, open every gate, make the worker running again,
// let everything settle, then take the final at-rest samples.
func (wd *World) runEpilogue() {
	r := wd.rec
	wd.epilogue = true
	for _, q := range wd.qs {
		if q.ad != nil {
			q.ad.faultsOn = false
		}
	}
	for _, s := range wd.subs {
		if s.Gated && !s.gate.IsOpen() {
			s.gate.Open()
		}
	}
	wd.root.releaseStalls()
	simrt.WaitQuiescent()
	{
		// end of the program: every gate is open, everything has settled in whatever
		// lifecycle state the program left the worker (Arg 88; Phase 1, so the clauses
		// about mid-program quiescence do not take it for one of theirs)
		c := r.begin(opSettle, -1, -1)
		c.Arg = 88
		c.Val2 = wd.root.stalledNow
		r.end(c)
	}
	w := wd.w
	for i := 0; i < 4; i++ {
		st := w.Status()
		if st == "Paused" {
			c := r.begin(opResume, -1, -1)
			c.Err = errText(w.Resume())
			r.end(c)
		} else if st == "Stopped" && wd.cancelled == 0 {
			c := r.begin(opRestart, -1, -1)
			c.Err = errText(w.Restart())
			r.end(c)
			wd.startErrReader()
		} else {
			break
		}
		simrt.WaitQuiescent()
	}
	if wd.cfg.Expiry > 0 {
		wd.sampleIdle(0)
		simrt.AdvanceTime(time.Duration(3*wd.cfg.Expiry+1) * timeUnit)
		wd.sampleIdle(1)
	}
	simrt.WaitQuiescent()
	wd.sample(true)
	// final status of every handle
	for _, s := range wd.subs {
		if s.h != nil && s.h.ej != nil {
			s.acquire()
			c := r.begin(opStatus, s.Q, s.N)
			c.Str = s.h.ej.Status()
			c.OK = s.h.ej.IsClosed()
			c.Arg = 1 // final
			c.Val2 = len(s.Entries) - len(s.Exits)
			r.end(c)
		}
	}
	// job objects a (user-supplied) queue refused: they are job handles too
	for _, q := range wd.qs {
		if q.rq == nil {
			continue
		}
		for _, it := range q.rq.rejected {
			if sp, ok := it.item.(StatusProvider); ok {
				c := r.begin(opStatus, q.idx, it.sub)
				c.Arg = 2 // refused item
				c.Str = sp.Status()
				c.OK = sp.IsClosed()
				r.end(c)
			}
		}
	}
	simrt.WaitQuiescent()
}

func (wd *World) sampleIdle(arg int) {
	c := wd.rec.begin(opSample, -1, -1)
	c.Arg = 20 + arg
	c.Val = wd.w.NumIdleWorkers()
	c.Val2 = wd.w.NumConcurrency()
	c.AtRest = true
	wd.rec.end(c)
}

func simOptions(cfg Cfg, seed uint64, nsites int, replay []uint32, strict bool) simrt.Options {
	return simrt.Options{
		Seed: seed, MaxSteps: uint64(cfg.MaxSteps), Strategy: cfg.Strat, Stick: cfg.Stick,
		PCTDepth: cfg.PCTDepth, PCTHorizon: cfg.Horizon, NPPreempt: cfg.PCTDepth, NPHorizon: cfg.Horizon,
		StmtDensity: cfg.Density, TickWeight: cfg.TickW, PoolDrop: cfg.PoolDrop, Replay: replay, Strict: strict, NumSites: nsites,
	}
}

// runEpisode executes one episode and judges it.
func runEpisode(prop *Property, cfg Cfg, prog *Program, seed uint64, replay []uint32, strict bool) *Episode {
	ep := &Episode{Cfg: cfg, Prog: prog, Seed: seed}
	wd := newWorld(cfg, prog)
	ep.W = wd
	opts := simOptions(cfg, seed, numSites, replay, strict)
	opts.OnFinished = raceFence
	opts.TraceSwitches = *fTrace || *fMode == "replay"
	sim := simrt.New(opts)
	rt := &rootTask{wd: wd, ep: ep, hook: prop.Hook}
	ep.Res = sim.Run(rt.run)
	wd.teardown()
	ep.Diverged = sim.Diverged
	if !wd.finalDone {
		ep.Finger = sim.Finger
		ep.Switches, ep.LibSwitches, ep.Ticks, ep.PoolDrops = sim.Switches, sim.LibSwitches, sim.Ticks, sim.PoolDrops
	}
	ep.Viols = judge(prop, ep)
	if *fRaceLog != "" {
		judgeRaces(ep)
	}
	return ep
}

// releaseStalls lets every acknowledgement that is stalled in the simulated backend return.
func (wd *World) releaseStalls() {
	if wd.stalledNow > 0 {
		wd.stallEpoch++
	}
}
