package varmq

// C17, raw queue layer: the pending count of a queue is the Len of the internal
// queue type.  2-4 simulated clients enqueue, dequeue, purge and read Len on one
// real Queue/PriorityQueue; every value Len returns must lie between 0 and the
// number of enqueues invoked before it returned (C17.a).  The linearizability of
// the same histories is C04's business (layer Q there).

import (
	"fmt"
	"strings"
	"time"

	"github.com/goptics/varmq/internal/simrt"
)

func c17qCheck(res *c04Result) (string, string) {
	if res.Verdict == simrt.VCrash {
		return "crash", res.Msg
	}
	if res.Verdict != simrt.VDone {
		return "", "" // a queue that hangs is C04.a / C03's finding
	}
	for _, op := range res.Ops {
		if !op.Finished || op.In.Op != qoLen {
			continue
		}
		enq := 0
		for _, o := range res.Ops {
			if o.In.Op == qoEnq && o.Call < op.Ret {
				enq++
			}
		}
		if op.Out.N < 0 || op.Out.N > enq {
			return "C17.a", fmt.Sprintf("raw queue (priority=%v): Len() = %d between %d and %d, but only %d enqueues had been invoked by then", res.Prio, op.Out.N, op.Call, op.Ret, enq)
		}
	}
	return "", ""
}

func c17Pre(p *Property, sum *Summary, fingers map[uint64]bool, deadline time.Time, budget time.Duration) bool {
	end := time.Now().Add(budget * 12 / 100)
	for i := 0; time.Now().Before(end); i++ {
		seed := mix(*fSeed^0xc17, uint64(*fShard), uint64(i))
		res := layerQ(seed, *fTier, true)
		sum.Episodes++
		sum.Steps += res.Steps
		sum.Verdicts[res.Verdict.String()]++
		sum.Extra["raw_queue_len_episodes"]++
		if res.LibSw > 0 || res.Seq {
			sum.NonTrivial++
			fingers[res.Finger^seed] = true
		}
		clause, msg := c17qCheck(res)
		if clause == "" {
			continue
		}
		res2 := layerQ(seed, *fTier, true)
		if c2, _ := c17qCheck(res2); c2 != clause {
			sum.Infra = fmt.Sprintf("C17 raw-queue violation %s of seed %d did not reproduce (got %q)", clause, seed, c2)
			return true
		}
		rf := &ReplayFile{Property: p.ID, Clause: clause, Msg: msg, Seed: seed, Steps: res.Steps, Trace: []string{"raw queue type, Len bounds", msg}}
		rf.Cfg.Prop = "C17Q"
		path := fmt.Sprintf("%s/%s-%s-%d.json", *fRepDir, p.ID, strings.ReplaceAll(clause, ".", "_"), seed)
		writeJSON(path, rf)
		sum.Viols = append(sum.Viols, ViolOut{Clause: clause, Msg: msg, Seed: seed, Replay: path})
		return true
	}
	return false
}
