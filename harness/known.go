package varmq

// Known findings (DESIGN §4.5): genuine defects of the pinned tree that were
// recorded rather than repaired.  Each entry names a witness predicate over the
// episode's history; a failing episode that satisfies a listed witness is
// reported as KNOWN-FINDING, anything else as VIOLATION.  The file is never
// written at run time.

import (
	"encoding/json"
	"os"
)

type KnownFinding struct {
	ID       string   `json:"id"`
	Status   string   `json:"status"` // "finding" | "fixed"
	Property string   `json:"property"`
	Clauses  []string `json:"clauses"`
	Witness  string   `json:"witness"`
	Text     string   `json:"text"`
	Commit   string   `json:"commit,omitempty"`
}

var knownFindings []KnownFinding

func loadKnown() {
	b, err := os.ReadFile(*fKnown)
	if err != nil {
		return
	}
	var f struct {
		Findings []KnownFinding `json:"findings"`
	}
	if json.Unmarshal(b, &f) == nil {
		knownFindings = f.Findings
	}
}

// witnesses: name -> predicate over (episode, violation).
var witnesses = map[string]func(ep *Episode, v Viol) bool{}

func matchKnown(p *Property, ep *Episode, v Viol) string {
	for _, k := range knownFindings {
		if k.Status != "finding" || k.Property != p.ID {
			continue
		}
		hit := false
		for _, c := range k.Clauses {
			if c == v.Clause {
				hit = true
			}
		}
		if !hit {
			continue
		}
		if w := witnesses[k.Witness]; w != nil && w(ep, v) {
			return k.ID
		}
	}
	return ""
}
