package varmq

// Property-specific post-hoc clauses that need more than the generic ledger.

// judgeConservation — C03.b: at every gated quiescence on a running worker,
// in-flight >= min(unfinished, limit): whenever startable jobs are pending,
// the worker must be saturated.
func judgeConservation(j *judgeCtx) {
	wd := j.wd
	for _, c := range j.r.calls {
		if c.K != opSettle || c.Phase != 0 {
			continue
		}
		seq := c.Inv
		if j.stateAt(seq) != lsR || wd.cancelled != 0 {
			continue
		}
		// a TunePool in flight makes the limit ambiguous, and so do two successful ones that
		// overlapped when neither was surely overwritten by a later one (which stored last?)
		lim := wd.effConc(wd.cfg.Conc)
		amb := false
		var done []*Call
		for _, t := range j.r.calls {
			if t.K == opTune && t.Inv < seq {
				if t.Ret == 0 || t.Ret > seq {
					amb = true
				} else if t.Err == "" {
					done = append(done, t)
				}
			}
		}
		var last *Call
		for _, t := range done {
			if last == nil || t.Ret > last.Ret {
				last = t
			}
		}
		if last != nil {
			lim = wd.effConc(last.Arg)
			for _, t := range done {
				if t != last && t.Ret > last.Inv && wd.effConc(t.Arg) != lim {
					amb = true // overlapped the last one: either value may be in effect
				}
			}
		}
		if amb {
			continue
		}
		infl := j.inflightAt(seq)
		startable := 0
		for _, s := range wd.subs {
			// pending = reported as accepted by then, or (wrapped queues) already stored in the
			// queue by a call that is still in progress - e.g. a batch whose later items wait
			// for room in a bounded queue: whatever is in the queue has been announced
			inQueue := s.AcceptKnown && s.Accepted && s.Enq != 0 && s.Enq < seq && s.AddInv != 0
			if !(j.accepted(s) && s.AddRet != 0 && s.AddRet <= seq) && !inQueue {
				continue
			}
			if len(s.Entries) > 0 && s.Entries[0] <= seq {
				continue
			}
			if j.maybePurged(s) {
				continue
			}
			closing := false
			for _, x := range j.r.calls {
				if x.K == opCloseJob && x.Sub == s.N && x.Inv < seq {
					closing = true
				}
			}
			if closing {
				continue
			}
			startable++
		}
		j.r.probes[pbGatedQuiescence]++
		// a pool goroutine whose acknowledgement is stalled in the backend still holds its slot
		if startable > 0 && infl+c.Val2 < lim {
			j.add("C03.b", seq, "quiescent on a running worker with %d startable jobs pending but only %d of %d worker slots busy (%d executing, %d in a stalled acknowledgement): nothing will dispatch them without a further API call", startable, infl+c.Val2, lim, infl, c.Val2)
		}
	}
}

// judgeOrderAfterResume — C09.d (and C04.d): while the limit is 1 on a single
// wrapped queue, worker functions start in dequeue order.
func judgeOrderAfterResume(j *judgeCtx) { j.checkEntryOrder("C09.d") }

func (j *judgeCtx) checkEntryOrder(clause string) {
	wd := j.wd
	if wd.effConc(wd.cfg.Conc) != 1 || len(wd.qs) != 1 || wd.qs[0].rq == nil {
		return
	}
	for _, c := range j.r.calls {
		if c.K == opTune {
			return
		}
	}
	var deq []int
	for _, q := range j.r.qevs {
		if q.K == 2 {
			deq = append(deq, q.Sub)
		}
	}
	var ent []int
	for _, f := range j.r.fns {
		if f.Enter {
			ent = append(ent, f.Sub)
		}
	}
	// entries must be a subsequence-preserving image of dequeues restricted to executed jobs
	k := 0
	for _, d := range deq {
		if k < len(ent) && ent[k] == d {
			k++
			continue
		}
		if len(wd.subs[d].Entries) == 0 {
			continue // dequeued but skipped (cancelled)
		}
		if k < len(ent) {
			j.add(clause, wd.subs[ent[k]].Entries[0], "with concurrency 1 job %d started before job %d although %d was dequeued first", ent[k], d, d)
			return
		}
	}
}
