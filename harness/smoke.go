package varmq

import (
	"testing"

	"github.com/goptics/varmq/internal/simrt"
)

func TestVerifSmoke(t *testing.T) {
	for seed := uint64(1); seed <= 20; seed++ {
		ran := 0
		s := simrt.New(simrt.Options{Seed: seed, Strategy: int(seed % 3), Stick: 50, PCTDepth: 2, PCTHorizon: 300, StmtDensity: 50, NumSites: 2000})
		res := s.Run(func() {
			w := NewWorker(func(j Job[int]) { ran++ }, 2)
			q := w.BindQueue()
			var hs []EnqueuedJob
			for i := 0; i < 5; i++ {
				h, ok := q.Add(i)
				if !ok {
					simrt.Fail("smoke", "add rejected")
				}
				hs = append(hs, h)
			}
			for _, h := range hs {
				h.Wait()
			}
			w.WaitUntilFinished()
			w.Stop()
			simrt.WaitQuiescent()
			simrt.Finish()
		})
		t.Logf("seed %d verdict=%v steps=%d ran=%d msg=%s", seed, res.Verdict, res.Steps, ran, res.Msg)
		if res.Verdict != simrt.VDone || ran != 5 {
			for _, tk := range res.Tasks {
				t.Logf("  task %d %s exited=%v blocked=%v on %s", tk.ID, tk.Name, tk.IsExited(), tk.IsBlocked(), tk.BlockKind())
			}
		}
	}
}
