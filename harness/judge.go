package varmq

// Post-hoc oracles over the recorded history (DESIGN §4.3, §5).  Every clause
// is evaluated on every episode; a check reports only the clauses of its own
// property (plus crashes and hangs, which break every property's liveness).
// "a before b" always means return(a).seq < invoke(b).seq.

import (
	"fmt"
	"os"
	"sort"
	"strings"

	"github.com/goptics/varmq/internal/simrt"
)

const (
	lsI = 'I'
	lsR = 'R'
	lsP = 'P'
	lsS = 'S'
	lsU = 'U' // unknown (lifecycle calls overlapped, or a call is in flight)
)

type lifeSeg struct {
	From  uint64
	State byte
}

type judgeCtx struct {
	ep    *Episode
	wd    *World
	r     *Recorder
	v     []Viol
	life  []lifeSeg
	final uint64
	finalState byte
	lcalls []*Call // lifecycle calls sorted by Inv
	limits []limSeg
	deqEvs []deqEv // successful dequeues by dispatcher tasks, in order (built on demand)
	// a Resume/Restart invoked while the asynchronous stop of a cancelled context was still
	// under way: a resumer racing a stop (DESIGN 11.4, 25) - what runs afterwards is its leftover
	raceCancelAt uint64
}

type limSeg struct {
	From uint64 // from this seq on ...
	Max  int    // ... this limit may be in effect
}

func (j *judgeCtx) add(clause string, seq uint64, format string, a ...any) {
	j.v = append(j.v, Viol{Clause: clause, Seq: seq, Msg: fmt.Sprintf(format, a...)})
}

func judge(prop *Property, ep *Episode) []Viol {
	j := &judgeCtx{ep: ep, wd: ep.W, r: ep.W.rec}
	j.final = ep.FinalSeq
	if j.final == 0 {
		j.final = ep.Res.Steps + 1
	}
	j.buildLife()
	j.buildLimits()
	switch ep.Res.Verdict {
	case simrt.VCrash:
		j.add("crash", ep.Res.Steps, "%s", ep.Res.Msg)
	case simrt.VStepCap:
		j.add("C03.d", ep.Res.Steps, "step budget exhausted with the ageing scheduler: livelock")
		j.add("livelock", ep.Res.Steps, "step budget exhausted under the ageing scheduler (%s): the system never comes to rest, accepted work is never finished", ep.Res.Msg)
	case simrt.VHang:
		j.add("hang", ep.Res.Steps, "the driving task is blocked forever: %s", j.blockedTable())
	case simrt.VInternal:
		j.add("internal", ep.Res.Steps, "%s", ep.Res.Msg)
	}
	for _, m := range j.r.unknownEntries {
		j.add("C01.e", 0, "worker function invoked with a payload that matches no submission: %s", m)
		j.add("C07.c", 0, "the job passed to the worker function does not carry submitted data (payload matches no submission): %s", m)
	}
	j.v = append(j.v, j.r.ackViol...)
	j.checkReentrantCalls()
	j.checkExecution()
	j.checkConcurrency()
	j.checkHandles()
	j.checkBarriers()
	j.checkPause()
	j.checkResumeReport()
	j.checkCancel()
	j.checkStatus()
	j.checkCounters()
	j.checkOutcomes()
	j.checkBatches()
	j.checkLibTasks()
	if prop.Judge != nil {
		prop.Judge(j)
	}
	sort.SliceStable(j.v, func(a, b int) bool { return j.v[a].Seq < j.v[b].Seq })
	return j.v
}

// checkReentrantCalls: a worker function may call back into the library. None of the calls
// the harness makes from there (TunePool, Pause, the introspection calls, an Add on an
// unbounded queue) waits for anything but short internal locks, so one that has not returned
// when the system is at rest is a deadlock between the library and the caller's worker
// function - typically with a Stop/Restart that waits for this very function. Reported like
// a hang of the driving task (every check owns it).
func (j *judgeCtx) checkReentrantCalls() {
	if j.ep.Res.Verdict != simrt.VDone {
		return
	}
	open := map[int]int{} // task -> sub whose function is executing on it
	for _, f := range j.r.fns {
		if f.Enter {
			open[f.Task] = f.Sub + 1
		} else {
			delete(open, f.Task)
		}
	}
	for _, c := range j.r.calls {
		if c.Ret != 0 || open[c.Task] == 0 {
			continue
		}
		switch c.K {
		case opTune, opPause, opIntro, opAdd:
			j.add("hang", j.final, "%s called from inside the worker function of job %d (task %d, invoked at %d) has not returned although the system is at rest: the library is deadlocked against its caller's worker function; %s", opNames[c.K], open[c.Task]-1, c.Task, c.Inv, j.blockedTable())
			return
		}
	}
}

func (j *judgeCtx) blockedTable() string {
	var sb strings.Builder
	for _, t := range j.ep.Res.Tasks {
		if t.IsBlocked() {
			fmt.Fprintf(&sb, "[task %d %s blocked on %s] ", t.ID, t.Name, t.BlockKind())
		}
	}
	return sb.String()
}

// ---------------------------------------------------------------- lifecycle reference

func (j *judgeCtx) buildLife() {
	st := byte(lsI)
	if len(j.wd.cfg.Queues) > 0 {
		st = lsR
	}
	j.life = []lifeSeg{{0, st}}
	for _, c := range j.r.calls {
		if isLifecycle(c.K) {
			j.lcalls = append(j.lcalls, c)
		}
	}
	cancelled := false
	pendingStop := false // a cancelled context stops the worker asynchronously: known again at the next quiescent point
	li := 0
	for _, c := range j.r.calls {
		if c.K == opSettle || (c.K == opSample && c.AtRest) {
			// (the asynchronous stop waits for the jobs in flight: a quiescent point with a gated
			// job still running, or an acknowledgement stalled, does not mean it is through)
			if pendingStop && c.Ret != 0 && j.inflightAt(c.Inv) == 0 && !(c.K == opSettle && c.Val2 != 0) {
				pendingStop = false
				if st != lsI {
					st = lsS
				}
				j.life = append(j.life, lifeSeg{c.Inv, st})
			}
			continue
		}
		if !isLifecycle(c.K) {
			continue
		}
		if pendingStop && (c.K == opResume || c.K == opRestart) && j.raceCancelAt == 0 {
			j.raceCancelAt = c.Inv
		}
		i := li
		li++
		// (a worker constructed with a queue is started there and then: a later Bind changes
		// nothing about its state, whatever it overlaps)
		inertBind := len(j.wd.cfg.Queues) > 0
		if inertBind && c.K == opBind {
			continue
		}
		overl := false
		for k, o := range j.lcalls {
			if k != i && o.Inv < c.Inv && (o.Ret == 0 || o.Ret > c.Inv) && !(inertBind && o.K == opBind) {
				overl = true
			}
		}
		// state is in transition while the call runs
		j.life = append(j.life, lifeSeg{c.Inv, lsU})
		if c.Ret == 0 {
			break // never returned: unknown until the end
		}
		next := st
		switch c.K {
		case opPause, opPauseAndWait:
			if st == lsR {
				next = lsP
			}
		case opResume:
			if st == lsP || st == lsI {
				next = lsR
			}
		case opStop, opWaitAndStop:
			if st == lsR || st == lsP {
				next = lsS
			}
		case opRestart:
			next = lsR
		case opCancelCtx:
			cancelled = true
		case opBind:
			if st == lsI {
				next = lsR
			}
		}
		if st == lsU && c.K != opRestart && c.K != opStop && c.K != opWaitAndStop {
			next = lsU
		}
		if overl {
			next = lsU
		}
		if cancelled && next != lsI && next != lsS {
			// (a Restart derives its context from the cancelled parent: stopped again)
			next = lsU
			pendingStop = true
		}
		st = next
		j.life = append(j.life, lifeSeg{c.Ret, st})
	}
	j.finalState = j.stateAt(j.final)
}

func (j *judgeCtx) stateAt(seq uint64) byte {
	st := byte(lsI)
	for _, s := range j.life {
		if s.From <= seq {
			st = s.State
		} else {
			break
		}
	}
	return st
}

// stateDuring returns the state if it is the same known state over [a,b].
func (j *judgeCtx) stateDuring(a, b uint64) byte {
	st := j.stateAt(a)
	for _, s := range j.life {
		if s.From > a && s.From <= b && s.State != st {
			return lsU
		}
	}
	return st
}

// ---------------------------------------------------------------- helpers on submissions

func (j *judgeCtx) callsOn(sub, k int) []*Call {
	var out []*Call
	for _, c := range j.r.calls {
		if c.Sub == sub && c.K == k {
			out = append(out, c)
		}
	}
	return out
}

// firstCloseOK returns the first Close on the handle that returned nil.
func (j *judgeCtx) firstCloseOK(s *Sub) *Call {
	var best *Call
	for _, c := range j.r.calls {
		if c.K == opCloseJob && c.Sub == s.N && c.Ret != 0 && c.Err == "" {
			if best == nil || c.Ret < best.Ret {
				best = c
			}
		}
	}
	return best
}

// maybePurged: a purge may have removed s (exact when the queue is wrapped or
// an adapter; conservative otherwise).
func (j *judgeCtx) maybePurged(s *Sub) bool {
	if s.Purged != 0 {
		return true
	}
	q := j.qOf(s)
	if q.rq != nil || q.ad != nil {
		return false
	}
	for _, c := range j.r.calls {
		if c.K == opPurge && c.Q == q.idx && (c.Ret == 0 || c.Ret > s.AddInv) {
			return true
		}
	}
	return false
}

// accepted: the submission was surely accepted.  Batch items on unwrapped
// queues report nothing individually: they are surely accepted when no
// queue.Close had been invoked by the time AddAll returned.
var noQueue = &qh{idx: -1}

func (j *judgeCtx) qOf(s *Sub) *qh {
	if len(j.wd.qs) == 0 {
		return noQueue
	}
	q := s.Q
	if q < 0 {
		q = -q
	}
	return j.wd.qs[q%len(j.wd.qs)]
}

func (j *judgeCtx) accepted(s *Sub) bool {
	if !s.Submitted {
		return false
	}
	if s.AddOK == 1 {
		return true // what the caller was told
	}
	if s.AcceptKnown {
		return s.Accepted
	}
	q := j.qOf(s)
	return q.closeInv == 0 || q.closeInv > s.AddRet
}

// maybeAccepted: acceptance cannot be excluded.
func (j *judgeCtx) maybeAccepted(s *Sub) bool {
	if !s.Submitted {
		return s.AddInv != 0
	}
	if s.AcceptKnown {
		return s.Accepted
	}
	q := j.qOf(s)
	return q.closeRet == 0 || q.closeRet > s.AddInv
}

// reexecAllowed: at-least-once delivery is legitimate for this submission
// (acknowledging adapter with refused acks / crash).
func (j *judgeCtx) reexecAllowed(s *Sub) bool {
	q := j.qOf(s)
	return q.ad != nil && (q.cfg.FAck > 0 || q.cfg.FAckLost > 0 || j.wd.crashes > 0)
}

func (j *judgeCtx) inflightAt(seq uint64) int {
	n := 0
	for _, f := range j.r.fns {
		if f.Seq > seq {
			break
		}
		if f.Enter {
			n++
		} else {
			n--
		}
	}
	return n
}

// ---------------------------------------------------------------- C01 / C03 / C09.c : execution ledger

func (j *judgeCtx) checkExecution() {
	wd := j.wd
	// running at rest: by the reference lifecycle, or - when concurrent lifecycle calls made
	// the reference ambiguous - because the worker itself reports Running at the final
	// quiescent point ("never reports Running while unable to process jobs")
	atRestRunning := j.ep.Res.Verdict == simrt.VDone && wd.cancelled == 0 &&
		(j.finalState == lsR || (j.finalState == lsU && j.lastStatus() == "Running"))
	for _, s := range wd.subs {
		if !s.Submitted && s.AddInv == 0 {
			continue
		}
		if len(s.Entries) >= 2 && !j.reexecAllowed(s) {
			j.add("C01.a", s.Entries[1], "submission %d executed %d times (entries at %v)", s.N, len(s.Entries), s.Entries)
			j.add("C07.c", s.Entries[1], "the data of submission %d reached the worker function %d times (entries at %v): some job does not carry its own submitted data", s.N, len(s.Entries), s.Entries)
		}
		if (s.AcceptKnown && !s.Accepted || s.AddOK == 2) && len(s.Entries) > 0 {
			j.add("C01.b", s.Entries[0], "submission %d was rejected (Add returned false / enqueue refused) but the worker function ran for it", s.N)
		}
		if c := j.firstCloseOK(s); c != nil {
			for _, e := range s.Entries {
				if e > c.Ret {
					j.add("C01.c", e, "submission %d started at %d although Close() had returned nil at %d", s.N, e, c.Ret)
					break
				}
			}
		}
		if s.Purged != 0 {
			for _, e := range s.Entries {
				if e > s.Purged {
					j.add("C01.c", e, "submission %d started at %d although a purge removed it at %d", s.N, e, s.Purged)
					break
				}
			}
		}
		// liveness at rest
		if atRestRunning && j.accepted(s) && len(s.Exits) == 0 && j.firstCloseOK(s) == nil && !j.maybePurged(s) && !j.lostToFault(s) {
			msg := fmt.Sprintf("submission %d was accepted at %d, never cancelled or purged, the worker is Running and at rest, but the worker function never completed for it (entries %v)", s.N, s.AddRet, s.Entries)
			j.add("C01.d", j.final, "%s", msg)
			j.add("C03.a", j.final, "%s", msg)
			j.add("C09.c", j.final, "%s", msg)
			j.add("C10.e", j.final, "%s", msg)
			j.add("C14.d", j.final, "%s", msg)
			j.add("C18.d", j.final, "%s", msg)
			// "never block forever": a caller waiting on the handle (or on the batch) of such a job
			for _, c := range j.r.calls {
				if c.Ret != 0 {
					continue
				}
				if (c.K == opWait || c.K == opResult) && c.Sub == s.N {
					j.add("C05.b", j.final, "%s on job %d (invoked at %d) is blocked for good: the job was accepted at %d, never cancelled or purged, the worker is Running and at rest, and the worker function never completed for it (entries %v)", opNames[c.K], s.N, c.Inv, s.AddRet, s.Entries)
				}
				if c.K == opBatchWait && s.Batch >= 0 && c.Batch == s.Batch {
					j.add("C05.b", j.final, "Wait on batch %d (invoked at %d) is blocked for good: item %d was accepted at %d, never cancelled or purged, the worker is Running and at rest, and the worker function never completed for it (entries %v)", c.Batch, c.Inv, s.N, s.AddRet, s.Entries)
				}
			}
			if s.h != nil {
				j.add("C16.e", j.final, "submission %d was accepted at %d and never cancelled or purged; the worker is Running and at rest, yet its handle will never read Closed: the job never ran (entries %v)", s.N, s.AddRet, s.Entries)
			}
		}
	}
	// C10.e second half: removed by a purge but never cancelled (handle never released)
	for _, c := range j.r.calls {
		if c.K == opStatus && c.Arg == 1 && j.ep.Res.Verdict == simrt.VDone {
			s := wd.subs[c.Sub]
			if s.Purged != 0 && len(s.Entries) == 0 && !c.OK {
				j.add("C10.e", c.Ret, "job %d was removed from its queue by a purge at %d but never cancelled: its handle still reports %q at rest and its waiters are never released", s.N, s.Purged, c.Str)
			}
		}
	}
	// C03.a second half: reported Processing with nobody executing
	for _, c := range j.r.calls {
		if c.K == opStatus && c.Arg == 1 && c.Str == "Processing" && c.Val2 == 0 && j.ep.Res.Verdict == simrt.VDone {
			j.add("C03.a", c.Ret, "job %d still reports Processing at rest while no goroutine is executing it", c.Sub)
		}
	}
	if j.ep.Res.Verdict == simrt.VStepCap {
		return
	}
}

// lostToFault: the harness itself made the adapter lose/refuse it (not varmq's fault).
func (j *judgeCtx) lostToFault(s *Sub) bool { return false }

// ---------------------------------------------------------------- C02 : concurrency bound

func (j *judgeCtx) buildLimits() {}

// maxLimit returns the largest limit possibly in effect at any instant of
// [a,b]: the value definitely in effect at a (last TunePool that returned nil
// by then, else the configured one) and every TunePool that succeeded or was
// still running within the window (an increase counts from its invoke, a
// decrease only from its return: the allowed bound is never too small).
func (j *judgeCtx) maxLimit(a, b uint64) int {
	wd := j.wd
	m := 0
	var done []*Call // successful TunePool calls that had returned by a
	for _, c := range j.r.calls {
		if c.K != opTune {
			continue
		}
		if c.Ret != 0 && c.Err != "" {
			continue // refused: no effect
		}
		if c.Ret != 0 && c.Ret <= a {
			done = append(done, c)
			continue
		}
		if n := wd.effConc(c.Arg); c.Inv <= b && n > m {
			m = n
		}
	}
	// the limit in effect at a: the configured one, or - with concurrent tuners - the value
	// of any completed call that no later completed call (invoked after it returned) has
	// surely overwritten
	def := 0
	if len(done) == 0 {
		def = wd.effConc(wd.cfg.Conc)
	}
	for _, c := range done {
		superseded := false
		for _, c2 := range done {
			if c2.Inv > c.Ret {
				superseded = true
			}
		}
		if n := wd.effConc(c.Arg); !superseded && n > def {
			def = n
		}
	}
	if def > m {
		m = def
	}
	return m
}

// slotLowerBound: an instant that is surely not later than the moment the slot used by the
// invocation of sub entered at seq was reserved (see checkConcurrency).
func (j *judgeCtx) slotLowerBound(sub int, seq uint64) uint64 {
	if j.deqEvs == nil {
		j.deqEvs = []deqEv{}
		for _, e := range j.r.qevs {
			if e.K == 2 {
				j.deqEvs = append(j.deqEvs, deqEv{e.Seq, e.Task, e.Sub})
			}
		}
		for _, q := range j.wd.qs {
			if q.ad != nil {
				for _, c := range q.ad.calls {
					if (c.Op == "deq" || c.Op == "deq-noack") && c.OK {
						j.deqEvs = append(j.deqEvs, deqEv{c.Seq, c.Task, c.Sub})
					}
				}
			}
		}
		sort.Slice(j.deqEvs, func(a, b int) bool { return j.deqEvs[a].seq < j.deqEvs[b].seq })
	}
	// the dequeue that handed out this invocation's job: the last one of sub before seq
	k := -1
	for i, e := range j.deqEvs {
		if e.seq >= seq {
			break
		}
		if e.sub == sub {
			k = i
		}
	}
	if k < 0 {
		return 0
	}
	for i := k - 1; i >= 0; i-- {
		if j.deqEvs[i].task == j.deqEvs[k].task {
			return j.deqEvs[i].seq
		}
	}
	return 0
}

type deqEv struct {
	seq  uint64
	task int
	sub  int
}

func (j *judgeCtx) checkConcurrency() {
	wd := j.wd
	// walk entries/exits keeping the set of in-flight jobs per consumer world
	type fl struct {
		sub int
		t   uint64
	}
	var cur []fl
	for _, f := range j.r.fns {
		if f.W != 0 {
			continue
		}
		if !f.Enter {
			for i, x := range cur {
				if x.sub == f.Sub {
					cur = append(cur[:i:i], cur[i+1:]...)
					break
				}
			}
			continue
		}
		// The dispatch of a job begins when the dispatcher takes a concurrency slot, which
		// is not observable and may precede the dequeue by any number of steps. The slot
		// is not even taken for this particular job: it is taken while *some* job is
		// pending, and whatever the queue hands out next uses it (a job of higher
		// priority submitted meanwhile; a later one when a purge or another event loop
		// took the earlier ones). What is sure: a dispatcher works sequentially, so the
		// slot was taken after the previous dequeue of the same dispatcher task (weaker
		// than anything tied to the job, but never wrong; 0 when that is unknown).
		t := j.slotLowerBound(f.Sub, f.Seq)
		cur = append(cur, fl{f.Sub, t})
		oldest := f.Seq
		for _, x := range cur {
			if x.t < oldest {
				oldest = x.t
			}
		}
		lim := j.maxLimit(oldest, f.Seq)
		if len(cur) > lim {
			if os.Getenv("VERIF_DEBUG") != "" {
				fmt.Println("DEBUG C02.a", f, cur, oldest, lim, len(j.r.fns))
			}
			j.add("C02.a", f.Seq, "%d worker-function invocations in progress, but the largest concurrency limit in effect since the oldest of them was dispatched (seq %d) is %d", len(cur), oldest, lim)
		}
	}
	// C02.c: NumConcurrency right after a successful TunePool by a single tuner
	tuners := -1
	multi := false
	for _, c := range j.r.calls {
		if c.K == opTune {
			if tuners == -1 {
				tuners = c.Task
			} else if tuners != c.Task {
				multi = true
			}
		}
	}
	if !multi {
		var last *Call
		for _, c := range j.r.calls {
			if c.K == opTune {
				last = c
			}
			if c.K == opSample && c.Arg == 100 && last != nil && last.Ret != 0 && last.Err == "" {
				if want := wd.effConc(last.Arg); c.Val != want {
					j.add("C02.c", c.Ret, "NumConcurrency() = %d right after TunePool(%d) returned nil (want %d)", c.Val, last.Arg, want)
				}
			}
			// ... and a TunePool that answers "same concurrency" leaves exactly that concurrency
			if c.K == opSample && c.Arg == 100 && last != nil && last.Ret != 0 && last.Err == ErrSameConcurrency.Error() {
				if want := wd.effConc(last.Arg); c.Val != want {
					j.add("C02.c", c.Ret, "TunePool(%d) was refused with %q, but NumConcurrency() = %d right afterwards: the limit asked for is not the one in effect", last.Arg, last.Err, c.Val)
				}
			}
		}
	}
}

// ---------------------------------------------------------------- C05 : handles

func (j *judgeCtx) releaseSeq(s *Sub) uint64 {
	var rel uint64
	upd := func(x uint64) {
		if x != 0 && (rel == 0 || x < rel) {
			rel = x
		}
	}
	if len(s.Exits) > 0 {
		upd(s.Exits[0])
	}
	if c := j.firstCloseOK(s); c != nil {
		upd(c.Inv)
	}
	if s.Purged != 0 {
		// the purge call that removed it: its invoke
		for _, c := range j.r.calls {
			if c.K == opPurge && c.Task == s.PurgeTask && c.Inv <= s.Purged && (c.Ret == 0 || c.Ret >= s.Purged) {
				upd(c.Inv)
			}
		}
		upd(s.Purged)
	}
	if s.AcceptKnown && !s.Accepted {
		upd(s.AddInv)
	}
	return rel
}

func (j *judgeCtx) checkHandles() {
	wd := j.wd
	for _, c := range j.r.calls {
		if c.K != opWait && c.K != opResult {
			continue
		}
		s := wd.subs[c.Sub]
		rel := j.releaseSeq(s)
		if c.Ret != 0 {
			if (rel == 0 || rel > c.Ret) && !j.maybePurged(s) {
				j.add("C05.a", c.Ret, "%s on job %d returned at %d but the job was not finished, cancelled, purged or rejected by then (release event: %d)", opNames[c.K], s.N, c.Ret, rel)
			}
		} else if rel != 0 && j.ep.Res.Verdict != simrt.VCrash {
			j.add("C05.b", j.final, "%s on job %d (invoked at %d) is still blocked although the job was released at %d", opNames[c.K], s.N, c.Inv, rel)
			if j.firstCloseOK(s) != nil || s.Purged != 0 {
				j.add("C10.d", j.final, "waiter of cancelled/purged job %d (invoked at %d) is still blocked", s.N, c.Inv)
			}
		}
	}
	for _, c := range j.r.calls {
		if c.K != opBatchWait {
			continue
		}
		b := wd.batches[c.Batch]
		fuzzy, all := false, true
		var rel uint64
		for _, n := range b.subs {
			s := wd.subs[n]
			if j.maybePurgedUnwrapped(s) || j.batchItemRejectable(s) {
				fuzzy = true
			}
			x := j.releaseSeq(s)
			if x == 0 {
				all = false
			}
			if x > rel {
				rel = x
			}
		}
		if fuzzy {
			continue
		}
		if c.Ret != 0 {
			for _, n := range b.subs {
				s := wd.subs[n]
				if x := j.releaseSeq(s); x == 0 || x > c.Ret {
					j.add("C05.a", c.Ret, "batch %d Wait returned at %d but item %d was not released by then (release event: %d)", b.idx, c.Ret, s.N, x)
					j.add("C08.d", c.Ret, "batch %d Wait returned at %d but item %d was not released by then (release event: %d)", b.idx, c.Ret, s.N, x)
					break
				}
			}
		} else if all && j.ep.Res.Verdict != simrt.VCrash {
			j.add("C05.b", j.final, "Wait on batch %d (invoked at %d) is still blocked although every item was released (last at %d)", b.idx, c.Inv, rel)
			j.add("C08.d", j.final, "Wait on batch %d (invoked at %d) is still blocked at rest although every item was released (last at %d) and its pending count can only be 0", b.idx, c.Inv, rel)
		}
	}
}

// maybePurgedUnwrapped: purge may have removed it and we cannot observe it.
func (j *judgeCtx) maybePurgedUnwrapped(s *Sub) bool { return s.Purged == 0 && j.maybePurged(s) }

// batchItemRejectable: acceptance of the item is unobservable and a queue
// Close overlapped/preceded its enqueue, so it may have been rejected.
func (j *judgeCtx) batchItemRejectable(s *Sub) bool {
	q := j.qOf(s)
	if q.rq != nil || q.ad != nil {
		return false
	}
	return q.closeInv != 0 && q.closeInv < s.AddRet
}

// ---------------------------------------------------------------- C06 : barriers

// executingThroughout: whatever the state of the worker and whoever resumes, pauses or restarts
// it meanwhile, every barrier call returns only at a moment when no worker function is
// executing.  A function that was entered before the call was invoked and had not returned
// when the call returned leaves no such moment.
func (j *judgeCtx) executingThroughout(c *Call, clause string) {
	// (except on a worker left Stopped with a job running: a Resume that overlapped an
	// earlier Stop switched dispatching back on underneath it - the resumer exclusion of
	// C06.b - and a Stop of a stopped worker has nothing to wait for; likewise after the
	// cancellation of the worker's context)
	if j.wd.cancelled != 0 {
		return
	}
	for _, o := range j.lcalls {
		if o == c || !(o.K == opStop || o.K == opWaitAndStop) || o.Inv >= c.Inv {
			continue
		}
		for _, r := range j.lcalls {
			if (r.K == opResume || r.K == opRestart) && (r.Inv < o.Ret || o.Ret == 0) && (o.Inv < r.Ret || r.Ret == 0) {
				return
			}
		}
	}
	for _, s := range j.wd.subs {
		for i, e := range s.Entries {
			if e >= c.Inv {
				continue
			}
			if i >= len(s.Exits) || s.Exits[i] > c.Ret {
				j.add(clause, c.Ret, "%s [%d,%d] returned although the worker function of job %d was executing during the whole call (entered at %d, before the call; not returned at %d): at no moment of the call was the worker without a job in flight", opNames[c.K], c.Inv, c.Ret, s.N, e, c.Ret)
				return
			}
		}
	}
}

func (j *judgeCtx) checkBarriers() {
	wd := j.wd
	for _, c := range j.r.calls {
		switch c.K {
		case opWUF:
			if c.Ret == 0 {
				if j.ep.Res.Verdict == simrt.VCrash {
					continue
				}
				st := j.finalState
				infl := j.inflightAt(j.final)
				pend := j.pendingAtEnd()
				if (st == lsR && infl == 0 && pend == 0) || ((st == lsP || st == lsS) && infl == 0) {
					j.add("C06.c", j.final, "WaitUntilFinished (invoked at %d) is still blocked at rest: state %c, nothing in flight, %d startable jobs pending", c.Inv, st, pend)
				}
				if q := j.wufBlockedAtQuiescence(c); q != nil {
					j.add("C06.c", q.Inv, "WaitUntilFinished (invoked at %d) is still blocked at the quiescent point %d: state %c, nothing in flight, no acknowledgement stalled, nothing startable pending", c.Inv, q.Inv, j.stateAt(q.Inv))
				}
				continue
			}
			// (after the still-blocked case above; for calls that did return, the same test
			// applies to quiescent points in between)
			if q := j.wufBlockedAtQuiescence(c); q != nil {
				j.add("C06.c", q.Inv, "WaitUntilFinished (invoked at %d) is still blocked at the quiescent point %d: state %c, nothing in flight, no acknowledgement stalled, nothing startable pending", c.Inv, q.Inv, j.stateAt(q.Inv))
			}
			if len(c.Extra) > 0 && j.raceCancelAt == 0 {
				j.add("C06.a", c.Ret, "WaitUntilFinished returned at %d, but job %d, whose worker function had returned by then, was not settled: its handle did not read Closed right afterwards", c.Ret, c.Extra[0])
			}
			j.ackBeforeBarrier(c)
			j.executingThroughout(c, "C06.a")
			if j.stateDuring(c.Inv, c.Ret) != lsR {
				continue
			}
			for _, s := range wd.subs {
				if !j.accepted(s) || s.AddRet == 0 || s.AddRet >= c.Inv {
					continue
				}
				if j.firstCloseOK(s) != nil || j.maybePurged(s) {
					continue
				}
				if len(s.Exits) == 0 || s.Exits[0] > c.Ret {
					j.add("C06.a", c.Ret, "WaitUntilFinished [%d,%d] on a running worker returned although job %d (accepted at %d, not cancelled) had not finished (exit %v)", c.Inv, c.Ret, s.N, s.AddRet, s.Exits)
					break
				}
			}
		case opPauseAndWait, opStop, opWaitAndStop:
			if c.Ret == 0 {
				if j.ep.Res.Verdict == simrt.VCrash {
					continue
				}
				if j.inflightAt(j.final) == 0 && (c.K != opWaitAndStop || j.pendingAtEnd() == 0 || j.stateAt(c.Inv) != lsR) {
					j.add("C06.c", j.final, "%s (invoked at %d) is still blocked at rest although no worker function is executing", opNames[c.K], c.Inv)
				}
				continue
			}
			if c.Err != "" {
				continue
			}
			// a Resume/Restart/Bind from another goroutine that overlaps the barrier call
			// switches dispatching back on underneath it: the property quantifies over
			// concurrent barrier callers, not over concurrent resumers
			j.executingThroughout(c, "C06.b")
			if j.racedByResumer(c) {
				continue
			}
			if len(c.Extra) > 0 {
				j.add("C06.b", c.Ret, "%s returned nil at %d, but job %d, whose worker function had returned by then, was not settled: its handle did not read Closed right afterwards (it had not left the in-flight count properly)", opNames[c.K], c.Ret, c.Extra[0])
			}
			j.ackBeforeBarrier(c)
			if n := j.inflightAt(c.Ret); n > 0 {
				j.add("C06.b", c.Ret, "%s returned nil at %d while %d worker-function invocations were executing", opNames[c.K], c.Ret, n)
			}
		}
	}
}

// wufBlockedAtQuiescence: a quiescent point (Settle, or the end of the program)
// inside the call at which WaitUntilFinished had nothing left to wait for: in a known
// Paused/Stopped state nothing in flight, in a known Running state also nothing
// startable pending; a stalled acknowledgement still holds its slot.
func (j *judgeCtx) wufBlockedAtQuiescence(c *Call) *Call {
	for _, q := range j.r.calls {
		if q.K != opSettle || !(q.Phase == 0 || q.Arg == 88) || q.Inv <= c.Inv || (c.Ret != 0 && q.Inv >= c.Ret) {
			continue
		}
		if q.Val2 != 0 || j.wd.cancelled != 0 || j.inflightAt(q.Inv) != 0 {
			continue
		}
		switch j.stateAt(q.Inv) {
		case lsP, lsS:
			return q
		case lsR:
			pend := 0
			for _, s := range j.wd.subs {
				if s.AddInv != 0 && s.AddInv < q.Inv && (!s.AcceptKnown || s.Accepted) && (len(s.Entries) == 0 || s.Entries[0] > q.Inv) {
					pend++ // (cancelled and purged ones included: only "surely nothing pending" counts)
				}
			}
			if pend == 0 {
				return q
			}
		}
	}
	return nil
}

// pendingAtEnd: accepted, startable (not cancelled/purged) and never started.
func (j *judgeCtx) pendingAtEnd() int {
	n := 0
	for _, s := range j.wd.subs {
		if j.accepted(s) && len(s.Entries) == 0 && j.firstCloseOK(s) == nil && !j.maybePurged(s) {
			n++
		}
	}
	return n
}

// ackBeforeBarrier: on the acknowledging kinds a job is settled when its delivery has been
// acknowledged (or the acknowledgement was refused): that call is made before the job leaves
// the in-flight count, so it cannot come after a barrier that saw nothing in flight.
func (j *judgeCtx) ackBeforeBarrier(c *Call) {
	if j.raceCancelAt != 0 {
		return
	}
	for _, s := range j.wd.subs {
		if s.ad == nil || len(s.Exits) == 0 || s.Exits[len(s.Exits)-1] > c.Ret || len(s.Entries) == 0 || s.Entries[len(s.Entries)-1] >= c.Inv {
			continue
		}
		first := uint64(0)
		for _, a := range s.ad.calls {
			if a.Op == "ack" && a.Sub == s.N && (first == 0 || a.Seq < first) {
				first = a.Seq
			}
		}
		if first > c.Ret {
			j.add("C06.a", c.Ret, "%s returned at %d although job %d, whose worker function had returned at %d, was only acknowledged at %d: the barrier did not wait for the job to be settled", opNames[c.K], c.Ret, s.N, s.Exits[len(s.Exits)-1], first)
			return
		}
	}
}

// racedByResumer: a Resume/Restart from another goroutine overlapped a pausing or
// stopping call before c returned (c itself included). Such a pair switches dispatching
// back on underneath the barrier; what runs afterwards is its leftover (a later Stop on
// the then "Stopped" worker returns at once while those jobs still run).
func (j *judgeCtx) racedByResumer(c *Call) bool {
	for _, o := range j.lcalls {
		if !(o.K == opResume || o.K == opRestart) || o.Inv >= c.Ret {
			continue
		}
		for _, b := range j.lcalls {
			if b == o || !(b.K == opPauseAndWait || b.K == opStop || b.K == opWaitAndStop || b.K == opPause) || b.Inv >= c.Ret {
				continue
			}
			if (o.Inv < b.Ret || b.Ret == 0) && (b.Inv < o.Ret || o.Ret == 0) {
				return true
			}
		}
	}
	return false
}

// ---------------------------------------------------------------- C09 : pause / stop

// checkResumeReport: what Resume tells its caller is what callers use to choose between
// "nothing to do" and "Restart it".  With the worker known to be paused when Resume was
// invoked, "already running" needs somebody who could have made it Running while the call
// ran (another Resume, a Restart), and "not running" needs somebody who could have stopped it.
func (j *judgeCtx) checkResumeReport() {
	for i, c := range j.lcalls {
		if c.K != opResume || c.Ret == 0 || c.Err == "" || c.Inv == 0 || j.stateAt(c.Inv-1) != lsP {
			continue
		}
		starter, stopper := false, j.wd.cancelled != 0 || j.wd.cfg.UseCtx
		for k, o := range j.lcalls {
			if k == i || o.Inv > c.Ret || (o.Ret != 0 && o.Ret < c.Inv) {
				continue
			}
			switch o.K {
			case opResume, opRestart:
				starter = true
				if o.K == opRestart {
					stopper = true
				}
			case opStop, opWaitAndStop, opCancelCtx:
				stopper = true
			default:
				if o.K != opPause && o.K != opPauseAndWait && o.K != opBind {
					starter, stopper = true, true
				}
			}
		}
		if c.Err == ErrRunningWorker.Error() && !starter {
			j.add("C09.e", c.Ret, "Resume [%d,%d] reported %q, but the worker was paused when it was invoked and no Resume or Restart overlaps the call: it was not Running at any moment of the call (a caller told this does not Restart, and what is pending is never processed)", c.Inv, c.Ret, c.Err)
			j.add("C14.c", c.Ret, "Resume [%d,%d] reported %q, but the worker was paused when it was invoked and no Resume or Restart overlaps the call", c.Inv, c.Ret, c.Err)
		}
		if c.Err == ErrNotRunningWorker.Error() && !stopper {
			j.add("C09.e", c.Ret, "Resume [%d,%d] reported %q, but the worker was paused when it was invoked and no Stop, Restart or cancellation overlaps the call: it should have been resumed", c.Inv, c.Ret, c.Err)
			j.add("C14.c", c.Ret, "Resume [%d,%d] reported %q, but the worker was paused when it was invoked and nothing could have stopped it during the call", c.Inv, c.Ret, c.Err)
		}
	}
}

func (j *judgeCtx) checkPause() {
	wd := j.wd
	for i, c := range j.lcalls {
		if c.Ret == 0 || c.Err != "" {
			continue
		}
		isBarrier := c.K == opPauseAndWait || c.K == opStop || c.K == opWaitAndStop
		if !isBarrier && c.K != opPause {
			continue
		}
		// the call must not overlap any other lifecycle call, and the window
		// ends at the invoke of the next Resume/Restart/Bind/Cancel
		clean := true
		end := j.final + 1
		for k, o := range j.lcalls {
			if k == i {
				continue
			}
			if o.Inv < c.Ret && (o.Ret == 0 || o.Ret > c.Inv) {
				clean = false
			}
			if o.Inv > c.Ret && o.Inv < end && (o.K == opResume || o.K == opRestart || o.K == opCancelCtx) {
				end = o.Inv
			}
		}
		before := j.stateAt(c.Inv - 1)
		if isBarrier {
			// a barrier call that returned nil promises a quiet worker whatever was going on
			// before and whoever else was pausing or stopping it at the same time (another
			// Stop, the context listener): only a resumer racing it, now or earlier in the
			// episode, voids the promise
			if before == lsI || j.racedByResumer(c) {
				continue
			}
		} else if !clean || before != lsR {
			continue
		}
		if isBarrier {
			pend := 0
			for _, s := range wd.subs {
				if j.accepted(s) && s.AddRet < c.Ret && (len(s.Entries) == 0 || s.Entries[0] > c.Ret) {
					pend++
				}
			}
			if pend > 0 {
				j.r.probes[pbBarrierWhilePending]++
			}
			for _, f := range j.r.fns {
				if f.Enter && f.W == 0 && f.Seq > c.Ret && f.Seq < end {
					j.add("C09.a", f.Seq, "worker function started for job %d at %d, after %s returned nil at %d and before any Resume/Restart was invoked (next at %d)", f.Sub, f.Seq, opNames[c.K], c.Ret, end)
					break
				}
			}
		} else {
			exec := j.inflightAt(c.Ret)
			// the limit that bounds "already dispatched" is the largest one in effect
			// since the oldest job executing at, or starting after, the return was dispatched
			oldest := c.Inv
			for _, s := range wd.subs {
				for i, e := range s.Entries {
					inflight := e <= c.Ret && (i >= len(s.Exits) || s.Exits[i] > c.Ret)
					if inflight || (e > c.Ret && e < end) {
						t := j.slotLowerBound(s.N, e)
						if t < oldest {
							oldest = t
						}
					}
				}
			}
			// jobs still in the queue when Pause returned: the dispatcher may be between its
			// status re-check and its dequeue for one job (per event loop; a loop of an earlier
			// run can still be draining its last signal after a Restart), so one job per loop may
			// leave the queue after the return and start; any further one was pending, not dispatched
			loops := 1
			for _, o := range j.lcalls {
				if o.K == opRestart && o.Inv < c.Inv {
					loops++
				}
			}
			late := 0
			for _, q := range j.r.qevs {
				if q.K != 2 || q.W != 0 || q.Seq <= c.Ret || q.Seq >= end || q.Sub < 0 || q.Sub >= len(wd.subs) {
					continue
				}
				for _, e := range wd.subs[q.Sub].Entries {
					if e > q.Seq && e < end {
						late++
						if late > loops {
							j.add("C09.b", e, "job %d was still in the queue when Pause returned at %d (dequeued at %d, the %d. such job, %d event loop(s)) and its worker function started at %d before any Resume/Restart: it was pending, not dispatched", q.Sub, c.Ret, q.Seq, late, loops, e)
						}
						break
					}
				}
			}
			lim := j.maxLimit(oldest, c.Ret)
			started := 0
			for _, f := range j.r.fns {
				if f.Enter && f.W == 0 && f.Seq > c.Ret && f.Seq < end {
					started++
					if started > lim-exec {
						j.add("C09.b", f.Seq, "%d worker functions started after Pause returned at %d (limit %d, %d executing then): more than the already dispatched jobs", started, c.Ret, lim, exec)
						break
					}
				}
			}
		}
	}
	// C09.c: NumPending sampled at a quiescent paused/stopped point
	for _, c := range j.r.calls {
		if c.K == opSample && c.Arg == 1 && c.AtRest {
			st := j.stateAt(c.Inv)
			if st != lsP && st != lsS {
				continue
			}
			want := 0
			for _, s := range wd.subs {
				if j.accepted(s) && s.AddRet != 0 && s.AddRet < c.Inv && len(s.Entries) == 0 && j.firstCloseOK(s) == nil && !j.maybePurged(s) && !j.maybeDequeued(s, c.Inv) {
					want++
				}
			}
			if c.Val < want {
				j.add("C09.c", c.Ret, "worker.NumPending() = %d at a quiescent %c point, but %d accepted jobs have neither started nor been cancelled or purged", c.Val, st, want)
			}
		}
	}
}

// maybeDequeued: the job left the queue before seq without having started
// (dispatched to a pool worker that has not entered the function yet).
func (j *judgeCtx) maybeDequeued(s *Sub, seq uint64) bool {
	return s.Deq != 0 && s.Deq < seq
}

// ---------------------------------------------------------------- C10 : cancel / purge / queue close

func (j *judgeCtx) checkCancel() {
	wd := j.wd
	for _, c := range j.r.calls {
		if c.K != opCloseJob || c.Ret == 0 {
			continue
		}
		s := wd.subs[c.Sub]
		if c.Err == "" {
			j.r.probes[pbCancelOK]++
			if s.Deq > c.Ret {
				j.r.probes[pbClosedSkipped]++
			}
			// executing at the moment Close reported success, or started afterwards
			for i, e := range s.Entries {
				exited := i < len(s.Exits) && s.Exits[i] < c.Ret
				if e < c.Ret && !exited {
					j.add("C10.a", c.Ret, "Close() on job %d returned nil at %d while its worker function was executing (entered %d)", s.N, c.Ret, e)
				} else if e > c.Ret {
					j.add("C10.a", e, "job %d started at %d after Close() had returned nil at %d: cancelled and run", s.N, e, c.Ret)
				}
			}
		}
		// whole interval inside (entry, exit)
		for i, e := range s.Entries {
			if e < c.Inv && (i >= len(s.Exits) || s.Exits[i] > c.Ret) {
				j.r.probes[pbCloseProcessing]++
				if c.Err != ErrJobProcessing.Error() {
					j.add("C10.b", c.Ret, "Close() on job %d ran entirely while its worker function executed [%d..] but returned %q, not ErrJobProcessing", s.N, e, c.Err)
				}
			}
		}
		// a Close invoked after an earlier successful Close / observed completion
		for _, o := range j.r.calls {
			if o == c || o.Sub != c.Sub || o.Ret == 0 || o.Ret >= c.Inv {
				continue
			}
			if (o.K == opCloseJob && o.Err == "") || o.K == opWait || (o.K == opResult && j.wd.cfg.WKind == wkPlain) {
				if !strings.Contains(c.Err, ErrJobAlreadyClosed.Error()) {
					j.add("C10.c", c.Ret, "Close() on job %d invoked at %d after it was already closed/completed (observed at %d) returned %q, not ErrJobAlreadyClosed", s.N, c.Inv, o.Ret, c.Err)
				}
				break
			}
		}
	}
	// Close() called by the worker function on its own (executing) job
	for _, s := range wd.subs {
		if s.CloseInFnSeq != 0 && s.CloseInFnErr != ErrJobProcessing.Error() {
			j.add("C10.b", s.CloseInFnSeq, "Close() called on job %d from inside its worker function returned %q, not ErrJobProcessing", s.N, s.CloseInFnErr)
		}
	}
	// C10.f: queue close
	for _, q := range wd.qs {
		if q.closeRet == 0 {
			continue
		}
		for _, s := range wd.subs {
			if j.qOf(s) != q || !s.Submitted {
				continue
			}
			if s.AddInv > q.closeRet && s.Batch < 0 {
				for _, c := range j.callsOn(s.N, opAdd) {
					if c.OK {
						j.add("C10.f", c.Ret, "Add of %d invoked at %d, after queue.Close returned at %d, was accepted", s.N, c.Inv, q.closeRet)
					}
				}
			}
			if s.AddInv > q.closeRet && len(s.Entries) > 0 {
				j.add("C10.f", s.Entries[0], "submission %d invoked after queue.Close returned was executed", s.N)
			}
		}
	}
}

// ---------------------------------------------------------------- C16 : job status

var statusRank = map[string]int{"Created": 0, "Queued": 1, "Processing": 2, "Finished": 3, "Closed": 4}

func (j *judgeCtx) checkStatus() {
	// batch items, read through the job object the queue was given, right after Wait() on
	// their batch returned: "once Wait has returned it reads Closed"
	for _, c := range j.r.calls {
		if c.K == opStatus && c.Arg == 3 && (c.Str != "Closed" || !c.OK) {
			j.add("C16.c", c.Ret, "batch %d item %d reports %q (IsClosed=%v) at %d although Wait() on the batch had returned", c.Batch, c.Sub, c.Str, c.OK, c.Ret)
		}
	}
	wd := j.wd
	last := make([]int, len(wd.subs))
	lastSeq := make([]uint64, len(wd.subs))
	for i := range last {
		last[i] = -1
	}
	for _, c := range j.r.calls {
		if c.K != opStatus || c.Ret == 0 {
			continue
		}
		if c.Arg == 2 {
			// the job object of a refused submission, as the queue that refused it sees it
			if c.Str != "Closed" || !c.OK {
				j.add("C16.c", c.Ret, "submission %d was refused by its queue, the submitting call has returned, but its job object still reports %q (IsClosed=%v) at rest: a rejected job must end Closed", c.Sub, c.Str, c.OK)
			}
			continue
		}
		if c.Sub < 0 {
			continue
		}
		s := wd.subs[c.Sub]
		rk, ok := statusRank[c.Str]
		if !ok {
			j.add("C16.d", c.Ret, "job %d reports status %q, which is none of the documented ones", s.N, c.Str)
			continue
		}
		// a sample is an interval [Inv,Ret] (the read happens somewhere inside):
		// only samples that precede this one in real time constrain it
		for _, o := range j.r.calls {
			if o.K == opStatus && o.Sub == c.Sub && o.Ret != 0 && o.Ret < c.Inv {
				if ork, ok := statusRank[o.Str]; ok && ork > rk {
					j.add("C16.a", c.Ret, "job %d status went backwards: %q observed in [%d,%d], then %q in [%d,%d]", s.N, o.Str, o.Inv, o.Ret, c.Str, c.Inv, c.Ret)
					break
				}
			}
		}
		_, _ = last, lastSeq
		// sampled while the worker function runs
		for i, e := range s.Entries {
			if e < c.Inv && (i >= len(s.Exits) || s.Exits[i] > c.Ret) && c.Str != "Processing" {
				j.add("C16.b", c.Ret, "job %d reports %q at %d while its worker function is executing (entered %d)", s.N, c.Str, c.Ret, e)
			}
		}
		// after a Wait on that handle returned
		for _, o := range j.r.calls {
			if o.Sub == c.Sub && (o.K == opWait || (o.K == opResult && o.Str == "wait")) && o.Ret != 0 && o.Ret < c.Inv {
				if c.Str != "Closed" || !c.OK {
					j.add("C16.c", c.Ret, "job %d reports %q (IsClosed=%v) at %d although Wait() had returned at %d", s.N, c.Str, c.OK, c.Ret, o.Ret)
				}
				break
			}
		}
	}
	for _, s := range wd.subs {
		if len(s.Entries) > 0 && s.StatusInFn != "" && s.StatusInFn != "Processing" {
			j.add("C16.b", s.Entries[len(s.Entries)-1], "job %d saw its own status %q inside the worker function", s.N, s.StatusInFn)
		}
	}
}

func rankName(r int) string {
	for k, v := range statusRank {
		if v == r {
			return k
		}
	}
	return "?"
}

// ---------------------------------------------------------------- C17 : counters

func (j *judgeCtx) checkCounters() {
	wd := j.wd
	if len(wd.consumers) > 0 {
		return
	}
	exitsBy := func(seq uint64) int {
		n := 0
		for _, f := range j.r.fns {
			if f.Seq <= seq && !f.Enter {
				n++
			}
		}
		return n
	}
	entriesBy := func(seq uint64) int {
		n := 0
		for _, f := range j.r.fns {
			if f.Seq <= seq && f.Enter {
				n++
			}
		}
		return n
	}
	addsInvokedBy := func(q int, seq uint64) int {
		n := 0
		for _, s := range wd.subs {
			if s.AddInv != 0 && s.AddInv <= seq && (q < 0 || j.qOf(s).idx == q) {
				n++
			}
		}
		return n
	}
	for _, c := range j.r.calls {
		if c.Ret == 0 {
			continue
		}
		if c.K == opQueuePending {
			if c.Val < 0 {
				j.add("C17.a", c.Ret, "queue %d NumPending() = %d (negative)", c.Q, c.Val)
			} else if n := addsInvokedBy(c.Q, c.Ret); c.Val > n {
				j.add("C17.b", c.Ret, "queue %d NumPending() = %d exceeds the %d submissions invoked so far", c.Q, c.Val, n)
			}
			if c.AtRest {
				j.atRestQueue(c)
			}
			continue
		}
		if c.K != opSample {
			continue
		}
		switch c.Arg {
		case 1:
			if c.Val < 0 {
				j.add("C17.a", c.Ret, "worker NumPending() = %d (negative)", c.Val)
			} else if n := addsInvokedBy(-1, c.Ret); c.Val > n*j.regFactor() {
				j.add("C17.b", c.Ret, "worker NumPending() = %d exceeds the %d submissions invoked so far", c.Val, n)
			}
		case 2:
			if c.Val < 0 {
				j.add("C17.a", c.Ret, "NumProcessing() = %d (negative)", c.Val)
			} else if lim := j.maxLimit(j.oldestSlot(c.Inv), c.Ret); c.Val > lim {
				j.add("C17.b", c.Ret, "NumProcessing() = %d exceeds the concurrency limit %d", c.Val, lim)
			}
		case 5:
			if n := addsInvokedBy(-1, c.Ret) + j.notifiesBy(c.Ret); c.Val < 0 || c.Val > n {
				j.add("C17.a", c.Ret, "Submitted = %d, but only %d submissions were invoked so far", c.Val, n)
			}
		case 6, 7, 8:
			if n := entriesBy(c.Ret); c.Val < 0 || c.Val > n {
				j.add("C17.a", c.Ret, "metric #%d = %d, but only %d worker-function invocations started so far", c.Arg, c.Val, n)
			}
		}
		if c.AtRest {
			j.atRestWorker(c, exitsBy(c.Inv))
		}
	}
}

func (j *judgeCtx) regFactor() int { return 1 }

func (j *judgeCtx) notifiesBy(seq uint64) int {
	n := 0
	for _, q := range j.wd.qs {
		if q.ad != nil {
			for _, x := range q.ad.notifies {
				n += x
			}
		}
	}
	return n
}

// oldestSlot is oldestInflight for readers of the processing counter. A counted slot need
// not belong to a function invocation at all: it is taken before the dequeue (and given
// back when a purge took the job meanwhile) and released some steps after the function
// returned. None of that is observable, so the window reaches back to the last quiescent
// point at which nothing was in flight (every slot is settled there), or to the start.
func (j *judgeCtx) oldestSlot(seq uint64) uint64 {
	o := uint64(0)
	for _, c := range j.r.calls {
		if (c.K == opSettle || (c.K == opSample && c.AtRest)) && c.Ret != 0 && c.Ret < seq && j.inflightAt(c.Inv) == 0 && !(c.K == opSettle && c.Val2 != 0) {
			if c.Inv > o {
				o = c.Inv
			}
		}
	}
	return o
}

func (j *judgeCtx) oldestInflight(seq uint64) uint64 {
	o := seq
	open := map[int]uint64{}
	for _, f := range j.r.fns {
		if f.Seq > seq {
			break
		}
		if f.Enter {
			open[f.Sub] = j.slotLowerBound(f.Sub, f.Seq)
		} else {
			delete(open, f.Sub)
		}
	}
	for _, t := range open {
		if t < o {
			o = t
		}
	}
	return o
}

// pendingExact counts, for queue q (or all: -1), accepted submissions that have
// not been dequeued/started, purged (lo: also not cancelled; hi: cancelled ones
// still count because they stay queued until the dispatcher drops them).
func (j *judgeCtx) pendingBounds(q int, seq uint64) (lo, hi int, exact bool) {
	exact = true
	for _, s := range j.wd.subs {
		qq := j.qOf(s)
		if q >= 0 && qq.idx != q {
			continue
		}
		if !j.accepted(s) || s.AddRet == 0 || s.AddRet > seq {
			// in flight or of unknown acceptance: may or may not be inside
			if j.maybeAccepted(s) && s.AddInv != 0 && s.AddInv <= seq && !(len(s.Entries) > 0 && s.Entries[0] <= seq) && !(s.Deq != 0 && s.Deq <= seq) && !(s.Purged != 0 && s.Purged <= seq) {
				hi++
				exact = false
			}
			continue
		}
		if s.Purged != 0 && s.Purged <= seq {
			continue
		}
		observable := qq.rq != nil || qq.ad != nil
		if observable {
			if s.Deq != 0 && s.Deq <= seq {
				continue
			}
			lo++
			hi++
			continue
		}
		exact = false
		if len(s.Entries) > 0 && s.Entries[0] <= seq {
			continue
		}
		if j.maybePurged(s) {
			hi++
			continue
		}
		hi++
		if c := j.firstCloseOK(s); c == nil || c.Ret > seq {
			lo++
		}
	}
	return
}

func (j *judgeCtx) atRestQueue(c *Call) {
	st := j.stateAt(c.Inv)
	if st == lsU || st == lsI {
		return
	}
	if j.inflightAt(c.Inv) != 0 {
		return
	}
	lo, hi, _ := j.pendingBounds(c.Q, c.Inv)
	if st == lsR {
		if j.wd.cancelled != 0 {
			return
		}
		if c.Val != 0 && hi == 0 {
			j.add("C17.c", c.Ret, "queue %d NumPending() = %d at rest on a running worker with nothing left in it", c.Q, c.Val)
		}
		if c.Val != 0 && hi > 0 {
			// jobs left on a running worker at rest: liveness clauses report that; here only consistency
			if c.Val < lo || c.Val > hi {
				j.add("C17.c", c.Ret, "queue %d NumPending() = %d at rest, expected within [%d,%d]", c.Q, c.Val, lo, hi)
			}
		}
		return
	}
	if c.Val < lo || c.Val > hi {
		j.add("C17.d", c.Ret, "queue %d NumPending() = %d at a quiescent %c point, expected within [%d,%d] (accepted - dispatched - purged)", c.Q, c.Val, st, lo, hi)
	}
}

func (j *judgeCtx) atRestWorker(c *Call, exits int) {
	wd := j.wd
	st := j.stateAt(c.Inv)
	if st == lsU || st == lsI || j.inflightAt(c.Inv) != 0 {
		return
	}
	switch c.Arg {
	case 1:
		lo, hi, _ := j.pendingBounds(-1, c.Inv)
		if c.Val < lo || c.Val > hi {
			cl := "C17.d"
			if st == lsR {
				cl = "C17.c"
			}
			j.add(cl, c.Ret, "worker NumPending() = %d at a quiescent %c point, expected within [%d,%d] (sum over its queues of accepted - dispatched - purged)", c.Val, st, lo, hi)
		}
	case 2:
		if c.Val != 0 {
			j.add("C17.c", c.Ret, "NumProcessing() = %d at rest with no worker function executing", c.Val)
		}
	case 5:
		// Submitted counts accepted submissions; on the distributed kinds the worker learns
		// of a submission (its own or another producer's) only through the backend's
		// "enqueued" notification, so there it is the notifications delivered to this
		// worker's subscriptions that must have been counted, each exactly once.
		want := 0
		unknown := 0
		for _, s := range wd.subs {
			k := -1
			if s.Q >= 0 && s.Q < len(wd.qs) {
				k = wd.qs[s.Q].cfg.Kind
			}
			if k == qkDist || k == qkDistPrio {
				continue
			}
			if s.Submitted && !s.AcceptKnown {
				unknown++
			}
			if j.accepted(s) && s.AddRet != 0 && s.AddRet <= c.Inv {
				want++
			}
		}
		seen := map[*simAdapter]bool{}
		for _, q := range wd.qs {
			if q.ad == nil || seen[q.ad] || (q.cfg.Kind != qkDist && q.cfg.Kind != qkDistPrio) {
				continue
			}
			seen[q.ad] = true
			for i, o := range q.ad.subOwner {
				if o == wd && i < len(q.ad.notifyAt) {
					for _, at := range q.ad.notifyAt[i] {
						if at <= c.Inv {
							want++
						}
					}
				}
			}
		}
		// a worker bound to a distributed queue is subscribed to it: with this worker as the only
		// consumer and no duplicated deliveries, every accepted submission on that queue was
		// announced to it exactly once by the time everything is at rest
		if wd.cfg.Consumers == 0 && wd.crashes == 0 && c.AtRest {
			for _, q := range wd.qs {
				if q.ad == nil || (q.cfg.Kind != qkDist && q.cfg.Kind != qkDistPrio) || q.cfg.NDup != 0 {
					continue
				}
				acc, ann := 0, 0
				for _, s := range wd.subs {
					if s.Q == q.idx && j.accepted(s) && s.AddRet != 0 && s.AddRet <= c.Inv && !s.Pre {
						acc++
					}
				}
				for i, o := range q.ad.subOwner {
					if o == wd && i < len(q.ad.notifyAt) {
						for _, at := range q.ad.notifyAt[i] {
							if at <= c.Inv {
								ann++
							}
						}
					}
				}
				if ann < acc && q.boundAt < c.Inv {
					j.add("C17.c", c.Ret, "queue %d (distributed): %d submissions were accepted but only %d 'enqueued' notifications reached the bound worker at rest: it is not (or no longer) subscribed, Submitted cannot equal the accepted submissions", q.idx, acc, ann)
				}
			}
		}
		if unknown == 0 && c.Val != want && wd.crashes == 0 {
			j.add("C17.c", c.Ret, "Submitted = %d at rest, but %d submissions were accepted (distributed kinds: notifications delivered to this worker)", c.Val, want)
			for _, o := range j.r.calls {
				if o.K == opCloseQueue && o.Ret != 0 && o.Ret < c.Inv {
					j.add("C10.f", c.Ret, "a queue was closed at %d; Submitted = %d at rest, but %d submissions were accepted: a submission refused by a closed queue must have no side effect", o.Ret, c.Val, want)
					break
				}
			}
		}
	case 6:
		if c.Val != exits {
			j.add("C17.c", c.Ret, "Completed = %d at rest, but %d worker-function invocations finished", c.Val, exits)
		}
	case 7, 8:
		ok, bad := 0, 0
		for _, f := range j.r.fns {
			if f.Seq <= c.Inv && !f.Enter {
				if wd.subs[f.Sub].Outcome == 0 {
					ok++
				} else if wd.cfg.WKind == wkPlain && wd.subs[f.Sub].Outcome == 1 {
					ok++ // a plain worker function has no error result
				} else {
					bad++
				}
			}
		}
		if c.Arg == 7 && c.Val != ok {
			j.add("C17.c", c.Ret, "Successful = %d at rest, but %d invocations succeeded", c.Val, ok)
			j.add("C07.d", c.Ret, "Successful = %d at rest, but %d invocations succeeded", c.Val, ok)
		}
		if c.Arg == 8 && c.Val != bad {
			j.add("C17.c", c.Ret, "Failed = %d at rest, but %d invocations failed or panicked", c.Val, bad)
			j.add("C07.d", c.Ret, "Failed = %d at rest, but %d invocations failed or panicked", c.Val, bad)
		}
	}
}

func (j *judgeCtx) hasDistributed() bool {
	for _, q := range j.wd.qs {
		if q.cfg.Kind == qkDist || q.cfg.Kind == qkDistPrio {
			return true
		}
	}
	return false
}

// ---------------------------------------------------------------- C07 : outcomes

func (j *judgeCtx) checkOutcomes() {
	wd := j.wd
	for _, c := range j.r.calls {
		if c.K != opResult || c.Ret == 0 || c.Str == "wait" {
			continue
		}
		s := wd.subs[c.Sub]
		if len(s.Exits) == 0 {
			continue // cancelled / purged: no outcome defined
		}
		switch s.Outcome {
		case 0:
			if c.Err != "" || (c.Str == "result" && c.Val != expectedValue(s.N)) {
				j.add("C07.a", c.Ret, "job %d: %s() = (%d, %q), want (%d, nil)", s.N, c.Str, c.Val, c.Err, expectedValue(s.N))
			}
		case 1:
			if c.Err != expectedErrText(s.N) {
				j.add("C07.a", c.Ret, "job %d: %s() error = %q, want %q", s.N, c.Str, c.Err, expectedErrText(s.N))
			}
		default:
			if !panicMatches(s, c.Err) {
				j.add("C07.a", c.Ret, "job %d panicked (outcome kind %d, text %q for string/error panics) but %s() error = %q", s.N, s.Outcome, expectedPanicText(s.N), c.Str, c.Err)
			}
		}
	}
	// ids seen inside the worker function
	for _, s := range wd.subs {
		if len(s.Entries) == 0 {
			continue
		}
		if s.Batch >= 0 {
			// one fixed injective decoration of the item's id: it must end with the id the
			// item was given (Item.ID, else a value the generator returned during that
			// AddAll to that task), and no two items may end up with the same id
			if s.ID != "" {
				if !strings.HasSuffix(s.IDSeen, s.ID) {
					j.add("C07.b", s.Entries[0], "batch item %d (Item.ID %q) carried id %q inside the worker function", s.N, s.ID, s.IDSeen)
				}
			} else if wd.cfg.IDGen {
				var task int
				for _, c := range j.r.calls {
					if c.K == opAddAll && c.Batch == s.Batch {
						task = c.Task
					}
				}
				okID := false
				for _, g := range j.r.gens {
					if g.Task == task && g.Seq >= s.AddInv && g.Seq <= s.AddRet && strings.HasSuffix(s.IDSeen, g.ID) {
						okID = true
					}
				}
				if !okID {
					j.add("C07.b", s.Entries[0], "batch item %d (no Item.ID) carried id %q, which does not end with a value the id generator returned during its AddAll", s.N, s.IDSeen)
				}
			}
			for _, o := range wd.subs {
				if o.N < s.N && o.Batch >= 0 && len(o.Entries) > 0 && o.IDSeen == s.IDSeen && (o.ID != s.ID || wd.cfg.IDGen) {
					j.add("C07.b", s.Entries[0], "batch items %d (Item.ID %q) and %d (Item.ID %q) both carried the id %q inside the worker function", o.N, o.ID, s.N, s.ID, s.IDSeen)
					j.add("C08.a", s.Entries[0], "batch items %d (Item.ID %q) and %d (Item.ID %q) are both tagged %q", o.N, o.ID, s.N, s.ID, s.IDSeen)
					break
				}
			}
			continue
		}
		if s.ID != "" || !wd.cfg.IDGen {
			if s.IDSeen != s.ID {
				j.add("C07.b", s.Entries[0], "job %d carried id %q inside the worker function, want %q", s.N, s.IDSeen, s.ID)
			}
			continue
		}
		if j.qOf(s).cfg.Kind >= qkDist {
			continue // distributed producers do not use the worker's generator
		}
		// generated id: a value the generator returned to this Add (same task, within the call), used by no other job
		var task int
		for _, c := range j.callsOn(s.N, opAdd) {
			task = c.Task
		}
		okID := false
		for _, g := range j.r.gens {
			if g.Task == task && g.Seq >= s.AddInv && g.Seq <= s.AddRet && g.ID == s.IDSeen {
				okID = true
			}
		}
		if !okID {
			j.add("C07.b", s.Entries[0], "job %d carried id %q inside the worker function, which the id generator did not return during its Add [%d,%d]", s.N, s.IDSeen, s.AddInv, s.AddRet)
		}
		for _, o := range wd.subs {
			if o.N < s.N && len(o.Entries) > 0 && o.IDSeen == s.IDSeen && o.ID == "" && o.Batch < 0 {
				j.add("C07.b", s.Entries[0], "jobs %d and %d both carried the generated id %q", o.N, s.N, s.IDSeen)
			}
		}
	}
	// C07.f: a panic is offered on the error channel. The offer is a non-blocking send into a
	// one-slot buffer, so it may be dropped when another error sits there; with a reader
	// attached from the start, a single panic in the whole episode and no other possible
	// source of errors (plain worker, built-in queues, no cancellation, purge, queue close,
	// stop or restart) the slot is empty and the offer must arrive.
	if wd.cfg.ErrReader && wd.cfg.WKind == wkPlain && j.ep.Res.Verdict == simrt.VDone && wd.cancelled == 0 {
		quiet := true
		for _, c := range j.r.calls {
			switch c.K {
			// (Restart is fine: it replaces the channel, the harness attaches a reader to the new
			// one as the application would, and a buffered offer waits for it)
			case opCloseJob, opPurge, opCloseQueue, opStop, opWaitAndStop, opCancelCtx, opBind:
				// (by any client task: a client still blocked in a call when the root task
				// starts the epilogue carries on with Phase 1 set)
				if c.Phase == 0 || c.Task != wd.rootTaskID {
					quiet = false
				}
			}
		}
		for _, q := range wd.qs {
			if q.ad != nil {
				quiet = false
			}
		}
		var panicked []*Sub
		for _, s := range wd.subs {
			if len(s.Exits) > 0 && s.Outcome >= 2 {
				panicked = append(panicked, s)
			}
			if s.CloseInFn {
				quiet = false
			}
		}
		if quiet && len(panicked) == 1 && len(wd.errsSeen) == 0 {
			j.add("C07.f", j.final, "job %d panicked (the only failure of the episode), an application goroutine was reading Errs() all the time, but the panic was never offered on the error channel", panicked[0].N)
		}
	}
	// errors offered on Errs() correspond to failed jobs
	for _, e := range wd.errsSeen {
		okk := false
		for _, s := range wd.subs {
			if len(s.Entries) == 0 {
				continue
			}
			if (s.Outcome == 1 && e == expectedErrText(s.N)) || (s.Outcome >= 2 && panicMatches(s, e)) {
				okk = true
			}
		}
		if !okk && !j.errExplained(e) {
			j.add("C07.d", j.final, "error %q was offered on Errs() but corresponds to no failed job", e)
		}
	}
}

func (j *judgeCtx) errExplained(e string) bool {
	// the worker's error channel also carries the library's own (public) errors
	for _, m := range []string{ErrJobAlreadyClosed.Error(), ErrJobProcessing.Error(), ErrFailedToDequeue.Error(), ErrAcknowledgeJob.Error(), ErrParseJob.Error(), ErrFailedToCastJob.Error(), ErrGetNextQueue.Error(), "invalid status"} {
		if strings.Contains(e, m) {
			return true
		}
	}
	return false
}

// ---------------------------------------------------------------- C08 : batches

func (j *judgeCtx) checkBatches() {
	wd := j.wd
	for _, b := range wd.batches {
		if b == nil {
			continue
		}
		allReleased := true
		unreleased := func(seq uint64) int {
			n := 0
			for _, x := range b.subs {
				s := wd.subs[x]
				rel := j.releaseSeq(s)
				if rel == 0 || rel > seq {
					n++
				}
			}
			return n
		}
		fuzzy := false
		for _, x := range b.subs {
			s := wd.subs[x]
			if j.maybePurgedUnwrapped(s) || j.batchItemRejectable(s) {
				fuzzy = true
			}
			if j.releaseSeq(s) == 0 {
				allReleased = false
			}
		}
		// NumPending interval oracle
		for _, c := range j.r.calls {
			if c.K != opBatchPending || c.Batch != b.idx || c.Ret == 0 || fuzzy {
				continue
			}
			hi := j.notSurelyDone(b, c.Inv)
			lo := unreleased(c.Ret)
			if c.Val < lo || c.Val > hi {
				j.add("C08.d", c.Ret, "batch %d NumPending() = %d, but between %d and %d of its items were unfinished during the call", b.idx, c.Val, lo, hi)
			}
			if c.Arg == 1 && c.Val != 0 {
				j.add("C08.d", c.Ret, "batch %d NumPending() = %d right after Wait() returned", b.idx, c.Val)
			}
		}
		if b.gj != nil || fuzzy {
			continue
		}
		// a drained batch: its stream is consumed (and finally closed) by the library, what a
		// reader of ours still gets is unspecified
		drained := false
		for _, c := range j.r.calls {
			if c.K == opBatchDrain && c.Batch == b.idx {
				drained = true
			}
		}
		if drained {
			continue
		}
		// stream content
		var reader *Call
		for _, c := range j.r.calls {
			if c.K == opBatchRead && c.Batch == b.idx {
				reader = c
			}
		}
		if reader == nil {
			continue
		}
		if reader.Ret == 0 {
			if allReleased && j.ep.Res.Verdict == simrt.VDone {
				j.add("C08.b", j.final, "batch %d: every item is released but the stream was never closed (reader invoked at %d still blocked, %d values read)", b.idx, reader.Inv, len(b.got))
			}
			continue
		}
		// closed: content must be exactly the executed items (err workers: the failed ones)
		want := map[int]bool{}
		for _, x := range b.subs {
			s := wd.subs[x]
			if len(s.Exits) == 0 {
				continue
			}
			if b.ge != nil && s.Outcome == 0 {
				continue
			}
			want[x] = true
		}
		if b.gr != nil {
			seen := map[int]int{}
			matches := func(hit *Sub, g streamItem) bool {
				switch hit.Outcome {
				case 0:
					return !g.IsErr && g.Data == expectedValue(hit.N)
				case 1:
					return g.Err == expectedErrText(hit.N)
				default:
					return panicMatches(hit, g.Err)
				}
			}
			// items are identified by their tag; several items may legitimately share
			// one (no Item.ID, no generator): match each result to an unmatched item
			// with that tag whose outcome it carries. Outcomes with an exact text first,
			// then the panics of which only "some error" is known.
			matched := make([]bool, len(b.got))
			for pass := 0; pass < 2; pass++ {
				for gi, g := range b.got {
					if matched[gi] {
						continue
					}
					var hit *Sub
					tagged := 0
					for _, x := range b.subs {
						s := wd.subs[x]
						if len(s.Entries) == 0 || g.JobID != s.IDSeen {
							continue
						}
						tagged++
						if (s.Outcome >= 4) != (pass == 1) {
							continue
						}
						if seen[s.N] == 0 && hit == nil && matches(s, g) {
							hit = s
						}
					}
					if hit != nil {
						seen[hit.N]++
						matched[gi] = true
						continue
					}
					if pass == 0 {
						continue
					}
					if tagged == 0 {
						j.add("C08.a", g.Seq, "batch %d stream delivered a result tagged %q that matches no executed item", b.idx, g.JobID)
						continue
					}
					j.add("C08.a", g.Seq, "batch %d stream delivered (%d, %q) tagged %q: no executed, not yet delivered item with that tag has this outcome (duplicate delivery or wrong value)", b.idx, g.Data, g.Err, g.JobID)
				}
			}
			for x := range want {
				if seen[x] == 0 {
					j.add("C08.a", reader.Ret, "batch %d: the stream closed without delivering executed item %d", b.idx, x)
				}
			}
		} else if b.ge != nil {
			if len(b.got) != len(want) {
				j.add("C08.a", reader.Ret, "batch %d: error stream delivered %d errors, but %d items failed", b.idx, len(b.got), len(want))
			}
		}
		// closed before everything was released
		if u := unreleased(reader.Ret); u > 0 {
			j.add("C08.b", reader.Ret, "batch %d: stream closed at %d while %d items were not yet released", b.idx, reader.Ret, u)
		}
	}
}

// notSurelyDone: upper bound for NumPending at seq.  The library counts an item
// as done a few steps after our release event (the completion path runs after
// the worker function returned), so an item only surely left the count when
// its completion path is provably over: the pool goroutine that ran it has
// started another job, a Wait on the batch has returned, a Settle point lies in
// between, or (cancel/purge/reject) the call that released it has returned.
func (j *judgeCtx) notSurelyDone(b *bnd, seq uint64) int {
	n := 0
	for _, x := range b.subs {
		if !j.surelyDone(b, j.wd.subs[x], seq) {
			n++
		}
	}
	return n
}

func (j *judgeCtx) surelyDone(b *bnd, s *Sub, seq uint64) bool {
	if c := j.firstCloseOK(s); c != nil && c.Ret < seq {
		return true
	}
	if s.AcceptKnown && !s.Accepted && s.AddRet != 0 && s.AddRet < seq {
		return true
	}
	if s.Purged != 0 {
		for _, c := range j.r.calls {
			if c.K == opPurge && c.Task == s.PurgeTask && c.Inv <= s.Purged && c.Ret != 0 && c.Ret >= s.Purged && c.Ret < seq {
				return true
			}
		}
	}
	if len(s.Exits) == 0 || s.Exits[0] >= seq {
		return false
	}
	ex := s.Exits[0]
	task := -1
	for _, f := range j.r.fns {
		if f.Seq == ex {
			task = f.Task
		}
		if f.Seq > ex && f.Seq < seq && f.Enter && f.Task == task {
			return true
		}
	}
	for _, c := range j.r.calls {
		if c.Ret != 0 && c.Ret < seq && c.Inv > ex {
			if c.K == opSettle || (c.K == opBatchWait && c.Batch == b.idx) {
				return true
			}
		}
		if c.K == opBatchWait && c.Batch == b.idx && c.Ret != 0 && c.Ret < seq && c.Ret > ex {
			return true
		}
	}
	return false
}

// ---------------------------------------------------------------- C03.c : library tasks at rest

func (j *judgeCtx) checkLibTasks() {
	if j.ep.Res.Verdict != simrt.VDone && j.ep.Res.Verdict != simrt.VHang {
		return
	}
	for _, t := range j.ep.Res.Tasks {
		if !t.Lib || !t.IsBlocked() || j.wd.isCrashedTask(t) {
			continue
		}
		switch t.BlockKind() {
		case "send", "mutex", "rmutex", "cond", "waitgroup":
			j.add("C03.c", j.final, "internal goroutine %d (%s) is blocked forever on %s at rest", t.ID, t.Name, t.BlockKind())
		}
	}
}
