package varmq

// Seeded generation of configurations and client programs (swarm style:
// every episode draws its own sizes, op mix, fault kinds and scheduler
// parameters; DESIGN §4.1, §5).

import (
	"math"
	"os"

	"github.com/goptics/varmq/internal/simrt"
)

type wop struct{ K, W int }

type Profile struct {
	WKinds  []int
	QKinds  []int
	NQ      [2]int
	WrapPct int
	NSyncPct int // percent of the distributed backends that notify synchronously under their own lock (only for profiles without barrier calls)
	ReenterPause bool // ... or Pause
	ReenterTune bool // re-entrant worker functions may also call TunePool
	ReenterPct int // percent of the single submissions whose worker function calls back into the library (introspection, or a follow-up Add)
	BoundPct   int // percent of the wrapped in-memory queues that are bounded (capacity 1-3, Enqueue waits while full)
	AckCapPct  int // percent of the wrapped standard queues that also implement IAcknowledgeable
	WrapDeqPct int // percent of the wrapped in-memory queues that refuse 10-30 % of the dequeues although they are not empty
	Conc    []int
	Expiry  []int
	Ratio   []int
	Strategy []int
	Producers [2]int
	Adds    [2]int
	BatchPct int
	BatchMax int
	BatchMin int
	PrioPct int
	GatedPct, DelayPct, MaxDelay int
	ErrPct, PanicPct int
	IDPct, IDGenPct int
	Ctrl    []wop
	CtrlOps [2]int
	CtrlGapPct int // chance of a Yield/Advance between controller ops
	Cancellers [2]int
	CancelOps [2]int
	Cancel  []wop
	Waiters [2]int
	WaitOps [2]int
	Wait    []wop
	Samplers [2]int
	SampleOps [2]int
	Sample  []wop
	Releaser int // percent: a releaser task opens gates one at a time with Settle between
	ReaderPct int
	CloseInFnPct int
	BatchWaitPct int
	ErrReaderPct int
	UseCtxPct int
	SmallChunksPct int
	TickW   []int
	PoolDrop []int
	MaxSteps int
	SettleProducerPct int
	AdFaults bool
	PreloadPct int // percent (distributed kinds): 1-4 jobs already sit in the backend when the consumer binds
	WarmPct  int // percent: a warm-up burst fills the idle pool first, every other task starts after it settled
	NoAckID  []int // percent choices for deliveries without an acknowledgement id on adapter queues
	AckStall []int // percent choices for stalled acknowledgements on adapter queues
	Tunes   []int
}

func pick(r *simrt.Rand, xs []int) int {
	if len(xs) == 0 {
		return 0
	}
	return xs[r.Intn(len(xs))]
}

func rng2(r *simrt.Rand, ab [2]int) int {
	if ab[1] <= ab[0] {
		return ab[0]
	}
	return ab[0] + r.Intn(ab[1]-ab[0]+1)
}

func pickW(r *simrt.Rand, ws []wop) int {
	t := 0
	for _, w := range ws {
		t += w.W
	}
	if t == 0 {
		return opYield
	}
	x := r.Intn(t)
	for _, w := range ws {
		if x < w.W {
			return w.K
		}
		x -= w.W
	}
	return ws[0].K
}

var prioVals = []int{math.MinInt, -1 << 62, -2, -1, 0, 0, 1, 1, 2, 1<<62 - 1, math.MaxInt}

func simParams(r *simrt.Rand, c *Cfg, pf *Profile) {
	switch x := r.Intn(10); {
	case x < 4:
		c.Strat = simrt.StratRW
	case x < 8:
		c.Strat = simrt.StratPCT
	default:
		c.Strat = simrt.StratNP
	}
	c.Stick = pick(r, []int{0, 50, 80, 95})
	c.PCTDepth = 1 + r.Intn(4)
	c.Horizon = pick(r, []int{60, 200, 800, 3000})
	c.Density = pick(r, []int{0, 0, 30, 100})
	c.TickW = pick(r, pf.TickW)
	c.PoolDrop = pick(r, pf.PoolDrop)
	c.MaxSteps = pf.MaxSteps
	if c.MaxSteps == 0 {
		c.MaxSteps = 150000
	}
	c.ConcForm = pick(r, []int{0, 0, 1, 2, 3})
}

// generate builds a configuration and a program from a profile.
func generate(r *simrt.Rand, pf *Profile) (Cfg, *Program) {
	var c Cfg
	if *fTier == "thorough" && pf.Adds[1] < 100 && pf.BatchMin == 0 && r.Chance(35) {
		// thorough tier: a share of larger programs (more producers, longer scripts)
		cp := *pf
		pf = &cp
		pf.Producers[1] += 2
		pf.Adds[1] = pf.Adds[1]*2 + 2
		pf.CtrlOps[1] = pf.CtrlOps[1] * 3 / 2
		pf.CancelOps[1] = pf.CancelOps[1] * 2
		pf.WaitOps[1] = pf.WaitOps[1] * 2
		pf.SampleOps[1] = pf.SampleOps[1] * 2
		pf.BatchMax = pf.BatchMax*2 + 1
		if pf.MaxSteps == 0 {
			pf.MaxSteps = 600000
		}
	}
	c.WKind = pick(r, pf.WKinds)
	c.Conc = pick(r, pf.Conc)
	c.Expiry = pick(r, pf.Expiry)
	c.Ratio = pick(r, pf.Ratio)
	c.Strategy = pick(r, pf.Strategy)
	c.UseCtx = r.Chance(pf.UseCtxPct)
	c.ErrReader = r.Chance(pf.ErrReaderPct)
	c.IDGen = r.Chance(pf.IDGenPct)
	if r.Chance(pf.SmallChunksPct) {
		c.ChunkInit = 2 + r.Intn(4)
		c.ChunkMax = c.ChunkInit + r.Intn(6)
	}
	nq := rng2(r, pf.NQ)
	for i := 0; i < nq; i++ {
		k := pick(r, pf.QKinds)
		if c.WKind != wkPlain && k > qkPrio {
			k = k % 2
		}
		qc := QCfg{Kind: k, Wrap: r.Chance(pf.WrapPct)}
		if k <= qkPrio && qc.Wrap && pf.BoundPct > 0 && r.Chance(pf.BoundPct) {
			qc.Bound = 1 + r.Intn(3)
		}
		if k == qkStd && qc.Wrap && pf.AckCapPct > 0 && r.Chance(pf.AckCapPct) {
			qc.AckCap = true
		}
		if k <= qkPrio && qc.Wrap && pf.WrapDeqPct > 0 && r.Chance(pf.WrapDeqPct) {
			qc.FDeq = pick(r, []int{10, 30})
		}
		if k > qkPrio && pf.AdFaults && r.Chance(50) {
			qc.FEnq = pick(r, []int{0, 0, 10, 30})
			qc.FDeq = pick(r, []int{0, 0, 10, 30})
			qc.FAck = pick(r, []int{0, 0, 10, 30})
			qc.FAckLost = pick(r, []int{0, 0, 15})
		}
		if k > qkPrio && len(pf.AckStall) > 0 {
			qc.FAckStall = pick(r, pf.AckStall)
		}
		if k > qkPrio && len(pf.NoAckID) > 0 {
			qc.FNoAckID = pick(r, pf.NoAckID)
		}
		if k >= qkDist {
			qc.NSync = pf.NSyncPct > 0 && r.Chance(pf.NSyncPct)
			qc.NDelay = pick(r, []int{0, 1, 3})
			if pf.AdFaults {
				qc.NDup = pick(r, []int{0, 0, 20})
				qc.NOther = pick(r, []int{0, 0, 50})
			}
		}
		c.Queues = append(c.Queues, qc)
	}
	simParams(r, &c, pf)

	p := &Program{}
	newSub := func(q, batch int) int {
		n := len(p.Subs)
		s := SubT{N: n, Q: q, Batch: batch}
		if r.Chance(pf.PrioPct) {
			s.Prio = pick(r, prioVals)
		}
		if r.Chance(pf.IDPct) || (batch >= 0 && r.Chance(70)) {
			s.ID = pick2(r, n)
		}
		switch x := r.Intn(100); {
		case x < pf.ErrPct:
			s.Outcome = 1
		case x < pf.ErrPct+pf.PanicPct:
			s.Outcome = 2 + r.Intn(4)
		}
		if r.Chance(pf.CloseInFnPct) {
			s.CloseInFn = true
		}
		if r.Chance(pf.GatedPct) {
			s.Gated = true
		} else if r.Chance(pf.DelayPct) {
			s.Delay = 1 + r.Intn(pf.MaxDelay+1)
		}
		p.Subs = append(p.Subs, s)
		return n
	}
	// producers
	np := rng2(r, pf.Producers)
	for i := 0; i < np; i++ {
		var ops []Op
		n := rng2(r, pf.Adds)
		for k := 0; k < n; k++ {
			q := 0
			if nq > 0 {
				q = r.Intn(nq)
			}
			memq := nq > 0 && c.Queues[q].Kind <= qkPrio
			if memq && r.Chance(pf.BatchPct) {
				b := p.NBatches
				p.NBatches++
				sz := pf.BatchMin + r.Intn(pf.BatchMax-pf.BatchMin+1)
				var subs []int
				for x := 0; x < sz; x++ {
					subs = append(subs, newSub(q, b))
				}
				ops = append(ops, Op{K: opAddAll, Q: q, A: b, Subs: subs})
			} else {
				ops = append(ops, Op{K: opAdd, Q: q, Subs: []int{newSub(q, -1)}})
			}
			if r.Chance(pf.SettleProducerPct) {
				ops = append(ops, Op{K: opSettle})
			}
		}
		p.Tasks = append(p.Tasks, ops)
	}
	for q := 0; q < nq; q++ {
		if c.Queues[q].Kind >= qkDist && r.Chance(pf.PreloadPct) {
			for k, n := 0, 1+r.Intn(4); k < n; k++ {
				p.Subs[newSub(q, -1)].Pre = true
			}
		}
	}
	nsub := len(p.Subs)
	// (follow-up jobs submitted by worker functions come after nsub: no client task targets them)
	if pf.ReenterPct > 0 {
		// (a worker function that submits to a bounded queue waits for room that only the
		// worker can make: the caller's deadlock, not the library's)
		bounded := false
		for _, q := range c.Queues {
			if q.Bound > 0 {
				bounded = true
			}
		}
		for i, n := 0, len(p.Subs); i < n; i++ {
			if p.Subs[i].Batch >= 0 || p.Subs[i].Pre || !r.Chance(pf.ReenterPct) {
				continue
			}
			if pf.ReenterPause && r.Chance(50) {
				p.Subs[i].Reenter = 4
			} else if pf.ReenterTune && r.Chance(50) {
				p.Subs[i].Reenter = 3
			} else if bounded || r.Chance(50) {
				p.Subs[i].Reenter = 1
			} else {
				c := newSub(p.Subs[i].Q, -1)
				p.Subs[c].IsChild = true
				p.Subs[c].CloseInFn = false
				p.Subs[i].Reenter, p.Subs[i].Child = 2, c
			}
		}
	}
	anySub := func() int {
		if nsub == 0 {
			return 0
		}
		return r.Intn(nsub)
	}
	// controller
	if len(pf.Ctrl) > 0 {
		var ops []Op
		n := rng2(r, pf.CtrlOps)
		for k := 0; k < n; k++ {
			if r.Chance(pf.CtrlGapPct) {
				switch r.Intn(3) {
				case 0:
					ops = append(ops, Op{K: opYield})
				case 1:
					ops = append(ops, Op{K: opAdvance, A: 1 + r.Intn(3)})
				default:
					ops = append(ops, Op{K: opSettle, A: 1})
				}
			}
			k := pickW(r, pf.Ctrl)
			op := Op{K: k}
			switch k {
			case opTune:
				op.A = pick(r, pf.Tunes)
			case opBind:
				op.A = pick(r, pf.QKinds)
			case opSettle:
				op.A = 1
			case opIntro:
				op.A = r.Intn(4)
			case opAdvance:
				op.A = 1 + r.Intn(4)
			case opLongIdle:
				ops = append(ops, Op{K: opSettle, A: 1})
				op = Op{K: opAdvance, A: 120 + r.Intn(60)}
				ops = append(ops, op)
				op = Op{K: opSettle, A: 3}
			}
			ops = append(ops, op)
		}
		p.Tasks = append(p.Tasks, ops)
	}
	// cancellers
	for i, n := 0, rng2(r, pf.Cancellers); i < n; i++ {
		var ops []Op
		for k, m := 0, rng2(r, pf.CancelOps); k < m; k++ {
			kk := pickW(r, pf.Cancel)
			op := Op{K: kk}
			switch kk {
			case opCloseJob:
				op.A = anySub()
			case opPurge, opCloseQueue:
				if nq > 0 {
					op.Q = r.Intn(nq)
				}
			}
			ops = append(ops, op)
		}
		p.Tasks = append(p.Tasks, ops)
	}
	// waiters
	for i, n := 0, rng2(r, pf.Waiters); i < n; i++ {
		var ops []Op
		for k, m := 0, rng2(r, pf.WaitOps); k < m; k++ {
			ops = append(ops, Op{K: pickW(r, pf.Wait), A: anySub()})
		}
		p.Tasks = append(p.Tasks, ops)
	}
	// samplers
	for i, n := 0, rng2(r, pf.Samplers); i < n; i++ {
		var ops []Op
		for k, m := 0, rng2(r, pf.SampleOps); k < m; k++ {
			kk := pickW(r, pf.Sample)
			op := Op{K: kk}
			switch kk {
			case opStatus:
				op.A = anySub()
			case opQueuePending:
				if nq > 0 {
					op.Q = r.Intn(nq)
				}
			case opSettle:
				op.A = 1
			case opIntro:
				op.A = r.Intn(4)
			case opBatchPending:
				if p.NBatches > 0 {
					op.A = r.Intn(p.NBatches)
				} else {
					op.K = opYield
				}
			}
			ops = append(ops, op)
		}
		p.Tasks = append(p.Tasks, ops)
	}
	// batch readers / waiters
	for b := 0; b < p.NBatches; b++ {
		if r.Chance(pf.ReaderPct) {
			p.Tasks = append(p.Tasks, []Op{{K: opBatchRead, A: b}})
		}
		if r.Chance(pf.BatchWaitPct) {
			ops := []Op{{K: opBatchPending, A: b}, {K: opBatchWait, A: b}}
			if r.Chance(50) {
				ops = append([]Op{{K: opYield}}, ops...)
			}
			p.Tasks = append(p.Tasks, ops)
		}
	}
	// releaser: opens gates one at a time, settling in between
	if r.Chance(pf.Releaser) {
		var gated []int
		for _, s := range p.Subs {
			if s.Gated {
				gated = append(gated, s.N)
			}
		}
		for i := len(gated) - 1; i > 0; i-- {
			k := r.Intn(i + 1)
			gated[i], gated[k] = gated[k], gated[i]
		}
		var ops []Op
		for _, g := range gated {
			ops = append(ops, Op{K: opSettle, A: 2}, Op{K: opOpenGate, A: g})
		}
		ops = append(ops, Op{K: opSettle, A: 2})
		p.Tasks = append(p.Tasks, ops)
	}
	// warm-up: a burst of plain jobs runs to completion first, so that the rest of the
	// program meets a pool full of idle workers (shrinking, expiry and reuse paths)
	if nq > 0 && r.Chance(pf.WarmPct) {
		var ops []Op
		for k, n := 0, c.Conc+r.Intn(3); k < n; k++ {
			sn := len(p.Subs)
			p.Subs = append(p.Subs, SubT{N: sn, Q: 0, Batch: -1, Delay: 1 + r.Intn(2)}) // sleeping jobs overlap: one idle worker each afterwards
			ops = append(ops, Op{K: opAdd, Q: 0, Subs: []int{sn}})
		}
		ops = append(ops, Op{K: opSettle}, Op{K: opWarmDone})
		for i := range p.Tasks {
			p.Tasks[i] = append([]Op{{K: opAwaitWarm}}, p.Tasks[i]...)
		}
		p.Tasks = append([][]Op{ops}, p.Tasks...)
	}
	// the step cap is a livelock detector, not a budget: scale it with the program
	// (worst case ~1500 steps per job with every statement yield enabled; x4 margin)
	if n := 60000 + 6000*len(p.Subs); n > c.MaxSteps {
		c.MaxSteps = n
	}
	return c, p
}

var idAlphabet = []string{"a", "job", "ünï", "x y", "\"q\"", "<&>", "0", "日本", "id-", "k\x1fv", "del\x7f", "tag\U000e0001", "nl\n", " lead", "\ttab", "\u00a0nbsp"}

func pick2(r *simrt.Rand, n int) string {
	return idAlphabet[r.Intn(len(idAlphabet))] + itoa(n)
}

func itoa(n int) string {
	if n == 0 {
		return "0"
	}
	var b [20]byte
	i := len(b)
	neg := n < 0
	if neg {
		n = -n
	}
	for n > 0 {
		i--
		b[i] = byte('0' + n%10)
		n /= 10
	}
	if neg {
		i--
		b[i] = '-'
	}
	return string(b[i:])
}

// ---------------------------------------------------------------- profiles

var memKinds = []int{qkStd, qkPrio}
var allKinds = []int{qkStd, qkStd, qkPrio, qkPrio, qkPers, qkPersPrio, qkDist, qkDistPrio}
var allW = []int{wkPlain, wkErr, wkResult}

func baseProfile() *Profile {
	return &Profile{
		WKinds: allW, QKinds: memKinds, NQ: [2]int{1, 1}, WrapPct: 66,
		Conc: []int{1, 1, 2, 2, 3, 4, 8}, Expiry: []int{0}, Ratio: []int{0, 0, 1, 50, 100},
		Producers: [2]int{1, 3}, Adds: [2]int{1, 6}, PrioPct: 60,
		DelayPct: 30, MaxDelay: 3, TickW: []int{0}, PoolDrop: []int{0, 0, 20}, SmallChunksPct: 70,
		Tunes: []int{0, 1, 2, 3, 5, -1},
	}
}

// bigBatch turns a rare episode into one batch that is larger than any fixed buffer size
// a batch stream could be given (1024 is the first segment size of the built-in queues):
// every item publishes a value, nobody reads the stream, one task waits for the batch.
func bigBatch(pf *Profile, r *simrt.Rand, tier string) bool {
	n := 1500
	if tier == "thorough" {
		n = 600
	}
	if os.Getenv("VERIF_BIGBATCH") != "" { // development aid: every episode
		n = 1
	}
	if r.Intn(n) != 0 {
		return false
	}
	pf.WKinds = []int{wkErr, wkResult}
	pf.QKinds = memKinds
	pf.Conc = []int{2, 4}
	pf.Producers, pf.Adds = [2]int{1, 1}, [2]int{1, 1}
	pf.BatchPct, pf.BatchMin, pf.BatchMax = 100, 1025, 1026 // (just over 1024: every item can still finish its function with concurrency >= 2)
	pf.ErrPct, pf.PanicPct = 100, 0
	pf.DelayPct, pf.GatedPct, pf.CloseInFnPct = 0, 0, 0
	pf.ReaderPct, pf.BatchWaitPct = 0, 100
	pf.Ctrl, pf.CtrlOps = nil, [2]int{0, 0}
	pf.Cancellers, pf.Waiters, pf.Samplers = [2]int{0, 0}, [2]int{0, 0}, [2]int{0, 0}
	pf.Releaser, pf.WarmPct = 0, 0
	pf.SmallChunksPct = 50
	pf.ReenterPct, pf.WrapDeqPct, pf.PreloadPct = 0, 0, 0
	return true
}

func init() {
	// C01 — exactly once
	register(&Property{ID: "C01", Rule: "episodes in which >=1 job was accepted and >=1 context switch happened inside library code; distinct = hash of (context-switch site sequence, program, configuration)",
		Gen: func(r *simrt.Rand, tier string) (Cfg, *Program) {
			pf := baseProfile()
			pf.ReenterPct, pf.ReenterTune = 8, true // worker functions that call back into the library (introspection, follow-up Add, TunePool)
			pf.WrapDeqPct = 15 // user-supplied queues that refuse a dequeue now and then
			pf.QKinds = allKinds
			pf.Expiry = []int{0, 0, 0, 1, 50}
			pf.TickW = []int{0, 2, 10}
			pf.BatchPct, pf.BatchMax = 25, 8
			pf.GatedPct = 15
			pf.ErrPct, pf.PanicPct = 10, 5
			pf.Ctrl = []wop{{opPause, 2}, {opResume, 3}, {opPauseAndWait, 2}, {opStop, 2}, {opRestart, 3}, {opTune, 4}, {opSettle, 2}, {opAdvance, 2}}
			pf.CtrlOps = [2]int{0, 6}
			pf.CtrlGapPct = 40
			pf.Cancellers = [2]int{0, 1}
			pf.CancelOps = [2]int{1, 4}
			pf.Cancel = []wop{{opCloseJob, 6}, {opPurge, 2}, {opCloseQueue, 1}}
			pf.Releaser = 50
			pf.ErrReaderPct = 30
			pf.WarmPct = 25
			pf.PreloadPct = 40
			pf.UseCtxPct = 20 // a live worker context (never cancelled here) switches on the context-aware paths
			if tier == "thorough" && r.Intn(1000) < 4 {
				// bursts across the real segment sizes (1024, 1536, ...)
				pf.SmallChunksPct = 0
				pf.Producers = [2]int{1, 2}
				pf.Adds = [2]int{900, 1400}
				pf.GatedPct, pf.DelayPct, pf.BatchPct = 0, 0, 0
				pf.Ctrl, pf.Cancellers = nil, [2]int{0, 0}
				pf.QKinds = []int{qkStd}
			}
			if r.Chance(6) {
				// lifecycle calls from two goroutines at once (a second controller next to the
				// first): whatever they do to each other, no accepted job is lost or run twice
				c, p := generate(r, pf)
				var ops []Op
				for i, n := 0, 1+r.Intn(4); i < n; i++ {
					for k := r.Intn(4); k > 0; k-- {
						ops = append(ops, Op{K: opYield})
					}
					ops = append(ops, Op{K: pickW(r, []wop{{opResume, 4}, {opPause, 2}, {opStop, 2}, {opRestart, 2}, {opPauseAndWait, 1}})})
				}
				p.Tasks = append(p.Tasks, ops)
				return c, p
			}
			if bigBatch(pf, r, tier) {
				// error/result workers publish into the batch's stream before the slot is given
				// back: with more items than any fixed stream size plus the concurrency, items
				// beyond that would never be invoked if a publish could block for want of a reader
				pf.BatchMin, pf.BatchMax = 1031, 1040
			}
			return generate(r, pf)
		},
		NonTrivial: func(ep *Episode) bool { return countAccepted(ep) > 0 },
	})
	// C03 — progress
	register(&Property{ID: "C03", Rule: "episodes with >=2 accepted jobs, a running worker at the end and >=1 library context switch; distinct = schedule/program hash",
		Gen: func(r *simrt.Rand, tier string) (Cfg, *Program) {
			pf := baseProfile()
			pf.ReenterPct, pf.ReenterTune = 8, true // worker functions that call back into the library (introspection, follow-up Add, TunePool)
			pf.BoundPct = 10 // bounded user queues: a producer waiting for room relies on the worker being woken for what is already in
			if r.Chance(20) {
				// several queues under every strategy: whichever queue holds the jobs, they are dispatched
				pf.NQ = [2]int{2, 3}
				pf.Strategy = []int{int(RoundRobin), int(MaxLen), int(MinLen)}
			}
			pf.WrapDeqPct = 15 // user-supplied queues that refuse a dequeue now and then
			pf.Expiry = []int{0, 0, 1, 50}
			pf.TickW = []int{0, 2, 10}
			pf.Adds = [2]int{2, 8}
			pf.BatchPct, pf.BatchMax = 15, 6
			pf.GatedPct = pick(r, []int{0, 60})
			pf.ErrPct, pf.PanicPct = 25, 10
			pf.Ctrl = []wop{{opPause, 2}, {opResume, 3}, {opTune, 5}, {opSettle, 2}, {opAdvance, 3}}
			pf.CtrlOps = [2]int{0, 5}
			pf.CtrlGapPct = 40
			pf.Cancellers = [2]int{0, 1}
			pf.CancelOps = [2]int{1, 3}
			pf.Cancel = []wop{{opCloseJob, 6}, {opPurge, 1}}
			pf.Releaser = 100
			pf.ErrReaderPct = 50
			pf.WarmPct = 25
			pf.UseCtxPct = 20
			if r.Chance(25) {
				// external backend with slow/stalled acknowledgements: a pool goroutine that is
				// still acknowledging holds its slot, every other job must keep moving
				pf.WKinds = []int{wkPlain}
				pf.QKinds = []int{qkPers, qkPersPrio}
				pf.AckStall = []int{0, 30, 60}
				pf.Ratio = []int{0, 1, 50, 100, 100}
			}
			if r.Chance(8) {
				// two lifecycle calls from two goroutines at once (a Restart waiting for the jobs in
				// flight while somebody resumes, pauses or restarts as well): whatever the outcome, a
				// worker that says Running at the end dispatches what is pending
				pf.GatedPct = 60
				pf.Ctrl, pf.CtrlOps = nil, [2]int{0, 0}
				c, p := generate(r, pf)
				for t, nt := 0, 2+r.Intn(2); t < nt; t++ {
					var ops []Op
					for k := r.Intn(5); k > 0; k-- {
						ops = append(ops, Op{K: opYield})
					}
					first := opRestart
					if t > 0 {
						first = pickW(r, []wop{{opResume, 4}, {opPause, 1}, {opRestart, 1}})
					}
					ops = append(ops, Op{K: first})
					if r.Chance(40) {
						ops = append(ops, Op{K: opYield}, Op{K: opResume})
					}
					p.Tasks = append(p.Tasks, ops)
				}
				return c, p
			}
			return generate(r, pf)
		},
		NonTrivial: func(ep *Episode) bool { return countAccepted(ep) >= 2 },
		Judge:      judgeConservation,
	})
	// C05 — handles
	register(&Property{ID: "C05", Rule: "episodes in which a handle call (Wait/Result/Err/batch Wait) was invoked before the job was released; distinct = schedule/program hash",
		Gen: func(r *simrt.Rand, tier string) (Cfg, *Program) {
			pf := baseProfile()
			pf.ReenterPct, pf.ReenterTune = 8, true // worker functions that call back into the library (introspection, follow-up Add, TunePool)
			pf.AckCapPct = 10
			pf.WrapDeqPct = 15 // user-supplied queues that refuse a dequeue now and then
			pf.BatchPct, pf.BatchMax = 25, 6
			pf.GatedPct, pf.DelayPct = 30, 40
			pf.ErrPct, pf.PanicPct = 15, 5
			pf.Waiters, pf.WaitOps = [2]int{1, 4}, [2]int{1, 4}
			pf.Wait = []wop{{opWait, 4}, {opResult, 5}, {opDrain, 1}, {opStatus, 1}}
			pf.BatchWaitPct = 80
			pf.ReaderPct = 40
			pf.Cancellers, pf.CancelOps = [2]int{0, 1}, [2]int{1, 3}
			pf.Cancel = []wop{{opCloseJob, 6}, {opPurge, 2}, {opCloseQueue, 1}}
			pf.Releaser = 70
			pf.CloseInFnPct = 5
			if r.Chance(15) {
				// a cancelled worker context / Stop while jobs run must not complete their handles early
				pf.UseCtxPct = 70
				pf.Ctrl = []wop{{opCancelCtx, 3}, {opStop, 1}, {opRestart, 1}}
				pf.CtrlOps = [2]int{1, 2}
				pf.Releaser = 100
			} else if r.Chance(15) {
				// idle-worker expiry: pool goroutines are retired between jobs while others are
				// being handed a job; a handle whose job went to a retired goroutine never completes
				pf.Expiry, pf.TickW = []int{1, 50}, []int{2, 10}
				pf.Conc, pf.Ratio = []int{2, 3, 4, 8}, []int{0, 1, 50}
				pf.WarmPct = 60
				pf.Ctrl = []wop{{opAdvance, 3}, {opSettle, 1}}
				pf.CtrlOps = [2]int{1, 4}
			}
			stopVsResume := len(pf.Ctrl) == 0 && r.Chance(6)
			if stopVsResume {
				pf.GatedPct, pf.WarmPct, pf.AckCapPct = 60, 0, 0
				pf.Releaser = 100
			}
			bigBatch(pf, r, tier)
			c, p := generate(r, pf)
			if stopVsResume {
				// a paused worker, a Stop waiting for the jobs in flight and a Resume from another
				// goroutine at the same time: whatever state the worker reports afterwards, a handle
				// it hands out then completes if it says Running
				p.Tasks = append(p.Tasks, []Op{{K: opYield}, {K: opPause}, {K: opWarmDone}})
				p.Tasks = append(p.Tasks, []Op{{K: opAwaitWarm}, {K: pickW(r, []wop{{opStop, 3}, {opWaitAndStop, 1}})}})
				var ops []Op
				ops = append(ops, Op{K: opAwaitWarm})
				for k := r.Intn(4); k > 0; k-- {
					ops = append(ops, Op{K: opYield})
				}
				p.Tasks = append(p.Tasks, append(ops, Op{K: opResume}))
			}
			for _, q := range c.Queues {
				if q.AckCap {
					// Purge on a queue with the acknowledgement methods empties the backend and
					// closes nothing ("adapter-backed queues hold serialized jobs", queue.go): with
					// job objects in it that is outside what C05/C10 state, so no purges here
					for t := range p.Tasks {
						var ops []Op
						for _, o := range p.Tasks[t] {
							if o.K != opPurge {
								ops = append(ops, o)
							}
						}
						p.Tasks[t] = ops
					}
				}
			}
			return c, p
		},
		NonTrivial: func(ep *Episode) bool {
			for _, c := range ep.W.rec.calls {
				if c.K == opWait || c.K == opResult || c.K == opBatchWait {
					return true
				}
			}
			return false
		},
	})
	// C06 — barriers
	register(&Property{ID: "C06", Rule: "episodes in which a barrier call (WaitUntilFinished/PauseAndWait/Stop/WaitAndStop) was invoked while jobs were pending or in flight; distinct = schedule/program hash",
		Gen: func(r *simrt.Rand, tier string) (Cfg, *Program) {
			pf := baseProfile()
			pf.ReenterPct, pf.ReenterTune = 6, true // worker functions that call back into the library while a barrier waits for them
			pf.WrapDeqPct = 15 // user-supplied queues that refuse a dequeue now and then
			pf.Conc = []int{1, 1, 2, 3, 4}
			pf.Adds = [2]int{1, 5}
			pf.GatedPct, pf.DelayPct = 20, 40
			pf.Ctrl = []wop{{opWUF, 6}, {opPauseAndWait, 2}, {opStop, 1}, {opWaitAndStop, 2}, {opResume, 3}, {opRestart, 2}}
			pf.CtrlOps = [2]int{1, 4}
			pf.CtrlGapPct = 30
			pf.Waiters, pf.WaitOps = [2]int{0, 2}, [2]int{1, 1}
			pf.Wait = []wop{{opWUFw, 1}}
			pf.Cancellers, pf.CancelOps = [2]int{0, 1}, [2]int{1, 3}
			pf.Cancel = []wop{{opCloseJob, 6}, {opPurge, 2}}
			pf.Releaser = 100
			pf.UseCtxPct = 25
			if r.Chance(20) {
				// the barriers on the persistent queue kinds (Purge, Len and dequeue go through the
				// adapter). Not the distributed kinds: their handle is the shared backend itself,
				// a Purge there - like a dequeue by another process - does not pass through the
				// worker, which therefore cannot wake its waiters (seen once when they were
				// included: WaitAndStop asleep after the backend was purged)
				pf.WKinds = []int{wkPlain}
				pf.QKinds = []int{qkPers, qkPersPrio}
			}
			persistent := len(pf.QKinds) > 0 && pf.QKinds[0] == qkPers
			undecodable := !persistent && r.Chance(10)
			if undecodable {
				// entries the worker cannot decode are dropped by the dispatcher: that shortens
				// the queue like a cancelled job does, and may be the last event there is. On the
				// distributed kinds (an entry that appears in the backend is announced), without
				// purges (see above).
				pf.WKinds = []int{wkPlain}
				pf.QKinds = []int{qkDist, qkDistPrio}
				pf.Cancellers = [2]int{0, 0}
				pf.Waiters = [2]int{1, 2}
			}
			cancelHeavy := !persistent && !undecodable && r.Chance(15)
			if cancelHeavy {
				// the last thing the dispatcher touches is a cancelled job it drops, while the
				// last running job completes: whoever brings the in-flight count to zero must
				// wake the parked barrier callers
				pf.Conc = []int{2, 2, 3}
				pf.Producers, pf.Adds = [2]int{1, 2}, [2]int{2, 4}
				pf.Cancellers, pf.CancelOps = [2]int{1, 2}, [2]int{1, 3}
				pf.Cancel = []wop{{opCloseJob, 1}}
				pf.Waiters = [2]int{1, 2}
				pf.Ctrl = []wop{{opWUF, 4}, {opPause, 2}, {opResume, 3}}
				pf.GatedPct, pf.DelayPct = 0, 60
			}
			second := !cancelHeavy && r.Chance(35)
			if second {
				// barrier calls on an already paused worker and from two callers at once
				pf.Ctrl = []wop{{opWUF, 3}, {opPauseAndWait, 4}, {opPause, 3}, {opStop, 1}, {opWaitAndStop, 1}, {opResume, 3}, {opRestart, 1}}
				pf.GatedPct = 50
			}
			c, p := generate(r, pf)
			if second {
				var ops []Op
				for i, n := 0, 1+r.Intn(3); i < n; i++ {
					ops = append(ops, Op{K: pickW(r, []wop{{opPauseAndWait, 5}, {opPause, 2}, {opStop, 1}, {opResume, 2}})})
				}
				p.Tasks = append(p.Tasks, ops)
			}
			if undecodable {
				for i, n := 0, 1+r.Intn(2); i < n && len(p.Tasks) > 0; i++ {
					t := r.Intn(len(p.Tasks))
					pos := r.Intn(len(p.Tasks[t]) + 1)
					op := Op{K: opInject, Q: 0, A: r.Intn(5)}
					p.Tasks[t] = append(p.Tasks[t][:pos:pos], append([]Op{op}, p.Tasks[t][pos:]...)...)
				}
			}
			return c, p
		},
		NonTrivial: func(ep *Episode) bool {
			for _, c := range ep.W.rec.calls {
				if c.K == opWUF || c.K == opPauseAndWait || c.K == opStop || c.K == opWaitAndStop {
					return true
				}
			}
			return false
		},
	})
	// C09 — pause/stop
	register(&Property{ID: "C09", Rule: "episodes in which PauseAndWait/Stop/WaitAndStop/Pause returned nil while accepted jobs had not started; distinct = schedule/program hash",
		Gen: func(r *simrt.Rand, tier string) (Cfg, *Program) {
			pf := baseProfile()
			pf.ReenterPct, pf.ReenterPause = 5, true // worker functions that look at, or pause, their own worker
			pf.WrapDeqPct = 15 // user-supplied queues that refuse a dequeue now and then
			pf.Conc = []int{1, 1, 2, 3, 4}
			pf.Producers, pf.Adds = [2]int{1, 3}, [2]int{2, 8}
			pf.DelayPct, pf.MaxDelay = 20, 2
			pf.Ctrl = []wop{{opPause, 2}, {opPauseAndWait, 4}, {opStop, 2}, {opWaitAndStop, 1}, {opResume, 4}, {opRestart, 3}, {opSettle, 2}, {opBind, 1}}
			pf.CtrlOps = [2]int{1, 8}
			pf.CtrlGapPct = 50
			switch r.Intn(10) {
			case 0, 1:
				// pending jobs must survive a pause/stop on the acknowledging queue kinds too
				// (a delivery taken while the worker is being paused is still a pending job)
				pf.WKinds = []int{wkPlain}
				pf.QKinds = []int{qkPers, qkPersPrio, qkDist, qkDistPrio}
			case 2, 3:
				// jobs still running across Pause/Resume: after Resume the free slots must be
				// used without waiting for the old jobs to end (gated quiescence, C03.b)
				pf.GatedPct = 50
				pf.Conc = []int{2, 3, 4}
				pf.Ctrl = []wop{{opPause, 4}, {opResume, 4}, {opSettle, 3}, {opPauseAndWait, 1}}
				pf.Releaser = 100
			case 4:
				// the usual shutdown: cancel the worker's context, then Stop (the listener's own
				// stop may be in progress), or two goroutines stopping at once
				pf.UseCtxPct = 70
				pf.GatedPct = 40
				pf.Ctrl = []wop{{opCancelCtx, 3}, {opStop, 4}, {opWaitAndStop, 1}, {opPauseAndWait, 1}, {opRestart, 2}}
				pf.CtrlOps = [2]int{2, 5}
				pf.CtrlGapPct = 10
				pf.Releaser = 100
				c, p := generate(r, pf)
				var ops []Op
				for i, n := 0, 1+r.Intn(2); i < n; i++ {
					ops = append(ops, Op{K: pickW(r, []wop{{opStop, 4}, {opPauseAndWait, 2}, {opWaitAndStop, 1}})})
				}
				p.Tasks = append(p.Tasks, ops)
				return c, p
			case 6:
				// TunePool from another goroutine while the controller pauses and resumes (warm pool,
				// several idle goroutines kept, no expiry: the resize has work to do): a pause that
				// returned stays in force whatever the resize did meanwhile
				pf.Conc = []int{2, 3, 4, 8}
				pf.Ratio, pf.Expiry = []int{50, 100}, []int{0}
				pf.WarmPct = 70
				pf.Ctrl = []wop{{opPause, 3}, {opPauseAndWait, 4}, {opResume, 4}, {opSettle, 2}}
				c, p := generate(r, pf)
				var ops []Op
				for i, n := 0, 2+r.Intn(5); i < n; i++ {
					for k := r.Intn(4); k > 0; k-- {
						ops = append(ops, Op{K: opYield})
					}
					ops = append(ops, Op{K: opTune, A: pick(r, []int{1, 2, 3, 4, 8})})
				}
				p.Tasks = append(p.Tasks, ops)
				return c, p
			case 5:
				// a paused worker, then a Stop (or the cancellation of its context) racing one or two
				// Resume calls: whoever loses must be told what really happened (checkResumeReport)
				pf.UseCtxPct = 30
				pf.Ctrl, pf.CtrlOps = nil, [2]int{0, 0}
				pf.WarmPct = 0
				c, p := generate(r, pf)
				first := Op{K: pickW(r, []wop{{opPauseAndWait, 2}, {opPause, 1}})}
				p.Tasks = append(p.Tasks, []Op{first, {K: opSettle}, {K: opWarmDone}})
				stop := []wop{{opStop, 4}, {opWaitAndStop, 1}}
				if c.UseCtx {
					stop = append(stop, wop{opCancelCtx, 3})
				}
				p.Tasks = append(p.Tasks, []Op{{K: opAwaitWarm}, {K: pickW(r, stop)}, {K: opSettle}, {K: opRestart}})
				for i, n := 0, 1+r.Intn(2); i < n; i++ {
					p.Tasks = append(p.Tasks, []Op{{K: opAwaitWarm}, {K: opResume}})
				}
				return c, p
			}
			return generate(r, pf)
		},
		Owns:       []string{"C03.b"},
		NonTrivial: func(ep *Episode) bool { return ep.W.rec.probes[pbBarrierWhilePending] > 0 },
		Judge:      func(j *judgeCtx) { judgeOrderAfterResume(j); judgeConservation(j) },
	})
	// C10 — cancel / purge / queue close
	register(&Property{ID: "C10", Rule: "episodes in which a Close/Purge/queue.Close call overlapped or preceded dispatch of a job it targeted; distinct = schedule/program hash",
		Gen: func(r *simrt.Rand, tier string) (Cfg, *Program) {
			pf := baseProfile()
			pf.WrapDeqPct = 15 // user-supplied queues that refuse a dequeue now and then
			pf.BatchPct, pf.BatchMax = 25, 6
			pf.GatedPct, pf.DelayPct = 25, 20
			pf.ErrPct, pf.PanicPct = 10, 5
			pf.Cancellers, pf.CancelOps = [2]int{1, 3}, [2]int{1, 5}
			pf.CloseInFnPct = 5
			pf.Cancel = []wop{{opCloseJob, 8}, {opPurge, 2}, {opCloseQueue, 1}}
			if r.Chance(20) {
				// cancelling and purging on a paused or stopped worker
				pf.Ctrl = []wop{{opPause, 3}, {opStop, 2}, {opResume, 3}, {opRestart, 2}, {opSettle, 2}}
				pf.CtrlOps = [2]int{1, 4}
				pf.CtrlGapPct = 40
			}
			pf.Waiters, pf.WaitOps = [2]int{0, 2}, [2]int{1, 3}
			pf.Wait = []wop{{opWait, 4}, {opResult, 4}}
			pf.BatchWaitPct, pf.ReaderPct = 40, 40
			pf.Releaser = 60
			return generate(r, pf)
		},
		NonTrivial: func(ep *Episode) bool {
			for _, c := range ep.W.rec.calls {
				if c.K == opCloseJob || c.K == opPurge || c.K == opCloseQueue {
					return true
				}
			}
			return false
		},
	})
	// C16 — job status
	register(&Property{ID: "C16", Rule: "episodes with >=2 status samples of one job taken by other tasks while it moved through its lifecycle; distinct = schedule/program hash",
		Gen: func(r *simrt.Rand, tier string) (Cfg, *Program) {
			pf := baseProfile()
			pf.WrapDeqPct = 15 // user-supplied queues that refuse a dequeue now and then
			pf.BatchPct, pf.BatchMax = 15, 5
			pf.DelayPct, pf.GatedPct = 10, 10
			pf.Samplers, pf.SampleOps = [2]int{1, 3}, [2]int{2, 8}
			pf.Sample = []wop{{opStatus, 8}, {opYield, 2}}
			pf.Waiters, pf.WaitOps = [2]int{1, 2}, [2]int{1, 4}
			pf.Wait = []wop{{opWait, 4}, {opStatus, 4}, {opResult, 1}}
			pf.Cancellers, pf.CancelOps = [2]int{0, 1}, [2]int{1, 2}
			pf.Cancel = []wop{{opCloseJob, 6}, {opPurge, 1}, {opCloseQueue, 2}}
			pf.Releaser = 50
			pf.BatchWaitPct = 60 // (the items' own status is read right after the batch Wait returned)
			if r.Chance(30) {
				// lifecycle events while jobs run: a running function keeps its job Processing
				// through Pause/Stop/Restart and through a cancelled worker context
				pf.UseCtxPct = 60
				pf.GatedPct = 40
				pf.Ctrl = []wop{{opCancelCtx, 3}, {opPause, 1}, {opResume, 1}, {opStop, 2}, {opRestart, 1}}
				pf.CtrlOps = [2]int{1, 3}
				pf.Releaser = 100
			}
			return generate(r, pf)
		},
		NonTrivial: func(ep *Episode) bool {
			n := 0
			for _, c := range ep.W.rec.calls {
				if c.K == opStatus && c.Arg == 0 {
					n++
				}
			}
			return n >= 2
		},
	})
	// C17 — counters
	register(&Property{ID: "C17", Pre: c17Pre, Owns: []string{"C02.a"}, Rule: "raw-queue layer (12 % of the budget): 2-4 simulated clients enqueue/dequeue/purge/Len on one real Queue/PriorityQueue, every Len within [0, enqueues invoked]; worker layer: episodes with >=3 counter samples taken while submissions/dispatch/completions were in progress plus >=1 at-rest sample; distinct = schedule/program hash",
		Gen: func(r *simrt.Rand, tier string) (Cfg, *Program) {
			pf := baseProfile()
			pf.ReenterPct = 8 // worker functions that call back into the library
			pf.QKinds = allKinds
			pf.NQ = [2]int{1, 2}
			pf.BatchPct, pf.BatchMax = 15, 5
			pf.DelayPct, pf.GatedPct = 20, 10
			pf.ErrPct, pf.PanicPct = 20, 10
			pf.Samplers, pf.SampleOps = [2]int{1, 3}, [2]int{2, 6}
			pf.Sample = []wop{{opSample, 5}, {opQueuePending, 4}, {opSettle, 1}, {opYield, 2}}
			pf.Ctrl = []wop{{opPause, 2}, {opResume, 2}, {opPauseAndWait, 1}, {opStop, 1}, {opRestart, 1}, {opSettle, 4}, {opTune, 2}}
			pf.CtrlOps = [2]int{0, 5}
			pf.CtrlGapPct = 30
			pf.Cancellers, pf.CancelOps = [2]int{0, 1}, [2]int{1, 3}
			pf.Cancel = []wop{{opCloseJob, 6}, {opPurge, 2}, {opCloseQueue, 1}}
			pf.Releaser = 50
			if r.Chance(10) {
				// several goroutines bind further queues at the same time and submit to them: the
				// worker's pending count is the sum over all of them, and every one is served
				pf.Cancellers = [2]int{0, 0}
				c, p := generate(r, pf)
				nb := 2 + r.Intn(2)
				for b := 0; b < nb; b++ {
					var ops []Op
					for k := r.Intn(4); k > 0; k-- {
						ops = append(ops, Op{K: opYield})
					}
					ops = append(ops, Op{K: opBind, A: pick(r, memKinds)})
					for k := 1 + r.Intn(3); k > 0; k-- {
						n := len(p.Subs)
						q := len(c.Queues) + r.Intn(nb)
						p.Subs = append(p.Subs, SubT{N: n, Q: q, Batch: -1})
						ops = append(ops, Op{K: opAdd, Q: q, Subs: []int{n}})
					}
					ops = append(ops, Op{K: opSettle, A: 1})
					p.Tasks = append(p.Tasks, ops)
				}
				return c, p
			}
			return generate(r, pf)
		},
		NonTrivial: func(ep *Episode) bool {
			n := 0
			for _, c := range ep.W.rec.calls {
				if c.K == opSample || c.K == opQueuePending {
					n++
				}
			}
			return n >= 3
		},
	})
	// C02 — concurrency bound
	register(&Property{ID: "C02", Rule: "episodes in which the number of simultaneously executing worker functions reached the concurrency limit at least once; distinct = schedule/program hash",
		Gen: func(r *simrt.Rand, tier string) (Cfg, *Program) {
			pf := baseProfile()
			pf.WrapDeqPct = 15 // user-supplied queues that refuse a dequeue now and then
			distC02 := false
			pf.Conc = []int{1, 1, 2, 2, 3, 4, 0, -3}
			pf.Adds = [2]int{3, 10}
			pf.GatedPct, pf.DelayPct = 80, 20
			if r.Chance(15) {
				// jobs announced by a distributed backend: every notification is handled on the
				// notifier's goroutine, several at once, next to the dispatcher
				pf.WKinds = []int{wkPlain}
				pf.QKinds = []int{qkDist, qkDistPrio}
				pf.Producers = [2]int{2, 4}
				pf.Conc = []int{1, 2, 2, 3}
				distC02 = true
			}
			pf.Ctrl = []wop{{opTune, 8}, {opPause, 1}, {opResume, 2}, {opRestart, 1}, {opSettle, 2}}
			pf.CtrlOps = [2]int{1, 6}
			pf.CtrlGapPct = 40
			pf.Releaser = 100
			pf.WarmPct = 25
			// cancelled jobs in the backlog are skipped by the dispatcher: the slot accounting
			// of that path belongs to the bound as well
			pf.Cancellers, pf.CancelOps = [2]int{0, 1}, [2]int{1, 4}
			pf.Cancel = []wop{{opCloseJob, 8}, {opPurge, 1}}
			if r.Chance(25) {
				pf.NQ = [2]int{2, 2} // two queues: a refused dequeue on one must not cost or win a slot on the other
			}
			lateBind := r.Chance(15)
			if lateBind {
				pf.WKinds = []int{wkPlain}
				pf.NQ = [2]int{1, 1}
			}
			c, p := generate(r, pf)
			if distC02 && r.Chance(50) {
				// entries the worker cannot decode are dropped by the dispatcher: the slot it had
				// reserved for them is given back exactly once
				for i, n := 0, 1+r.Intn(2); i < n && len(p.Tasks) > 0; i++ {
					t := r.Intn(len(p.Tasks))
					pos := r.Intn(len(p.Tasks[t]) + 1)
					op := Op{K: opInject, Q: 0, A: r.Intn(5)}
					p.Tasks[t] = append(p.Tasks[t][:pos:pos], append([]Op{op}, p.Tasks[t][pos:]...)...)
				}
			}
			if lateBind {
				// "binding further queues never raises the effective parallelism": a distributed
				// backend that already holds jobs is bound while the worker is saturated
				for k, n := 0, 2+r.Intn(3); k < n; k++ {
					p.Subs = append(p.Subs, SubT{N: len(p.Subs), Q: 1, Batch: -1, Pre: true, Gated: r.Chance(80)})
				}
				op := Op{K: opBind, A: pick(r, []int{qkDist, qkDistPrio})}
				t := r.Intn(len(p.Tasks))
				pos := r.Intn(len(p.Tasks[t]) + 1)
				p.Tasks[t] = append(p.Tasks[t][:pos:pos], append([]Op{op}, p.Tasks[t][pos:]...)...)
			}
			if r.Chance(30) {
				// a second goroutine tuning the pool at the same time: the limit in effect is
				// always one of the requested values
				var ops []Op
				for i, n := 0, 1+r.Intn(3); i < n; i++ {
					ops = append(ops, Op{K: opTune, A: pick(r, pf.Tunes)})
				}
				p.Tasks = append(p.Tasks, ops)
			}
			return c, p
		},
		NonTrivial: func(ep *Episode) bool { return ep.W.maxInflight >= ep.W.effConc(ep.W.cfg.Conc) || ep.W.maxInflight >= 2 },
	})
	// C07 — outcomes
	register(&Property{ID: "C07", Owns: []string{"C08.a"}, Pre: c07Pre, Rule: "episodes in which >=2 jobs with different outcomes (value/error/panic) were in flight or queued together and their handles were read; distinct = schedule/program hash",
		Gen: func(r *simrt.Rand, tier string) (Cfg, *Program) {
			pf := baseProfile()
			pf.Conc = []int{1, 2, 3, 4, 8}
			pf.Adds = [2]int{2, 6}
			if r.Chance(20) {
				// id and data must also survive the serialising queue kinds (plain workers)
				pf.QKinds = []int{qkPers, qkPersPrio, qkDist, qkDistPrio}
				pf.WKinds = []int{wkPlain}
				pf.Producers = [2]int{2, 3}
			}
			pf.BatchPct, pf.BatchMax = 25, 6
			pf.ErrPct, pf.PanicPct = 30, 25
			pf.IDPct, pf.IDGenPct = 50, 50
			pf.DelayPct = 20
			pf.Waiters, pf.WaitOps = [2]int{1, 3}, [2]int{2, 6}
			pf.Wait = []wop{{opResult, 8}, {opWait, 1}}
			pf.ReaderPct, pf.BatchWaitPct = 70, 30
			pf.ErrReaderPct = 60
			pf.Samplers, pf.SampleOps = [2]int{0, 1}, [2]int{1, 3}
			pf.Sample = []wop{{opSample, 3}, {opSettle, 2}}
			if r.Chance(30) {
				// callers polling the worker-level barrier contend for the worker's lock while
				// jobs fail: the single panic of an episode must still reach Errs() (C07.f)
				pf.Wait = []wop{{opResult, 5}, {opWait, 1}, {opWUFw, 5}}
				pf.ErrReaderPct = 100
				pf.ErrPct, pf.PanicPct = 20, 12
				if r.Chance(50) {
					// ... also when the job panics after the worker was paused under it
					pf.GatedPct = 50
					pf.Ctrl = []wop{{opPause, 3}, {opResume, 3}, {opPauseAndWait, 1}, {opRestart, 2}}
					pf.CtrlOps = [2]int{1, 3}
					pf.Releaser = 100
				}
			} else if r.Chance(15) {
				// the queue handle is closed while batches are being submitted: the items that
				// were accepted before the close still deliver their own outcomes, all of them
				pf.BatchPct, pf.BatchMax = 60, 8
				pf.Cancellers, pf.CancelOps = [2]int{1, 1}, [2]int{1, 2}
				pf.Cancel = []wop{{opCloseQueue, 1}}
			}
			return generate(r, pf)
		},
		NonTrivial: func(ep *Episode) bool {
			seen := map[int]bool{}
			for _, s := range ep.W.subs {
				if len(s.Exits) > 0 {
					seen[s.Outcome] = true
				}
			}
			return len(seen) >= 2
		},
	})
	// C08 — batches
	register(&Property{ID: "C08", Rule: "episodes with a batch whose items finished on >=2 different pool goroutines (or an empty / partly rejected / cancelled batch) and whose stream was read; distinct = schedule/program hash",
		Gen: func(r *simrt.Rand, tier string) (Cfg, *Program) {
			pf := baseProfile()
			pf.Conc = []int{1, 2, 2, 3, 4, 8}
			pf.Producers, pf.Adds = [2]int{1, 2}, [2]int{1, 3}
			pf.BatchPct, pf.BatchMax = 85, 8
			pf.IDGenPct = 40
			pf.ErrPct, pf.PanicPct = 25, 10
			pf.DelayPct, pf.MaxDelay = 15, 2
			pf.ReaderPct, pf.BatchWaitPct = 90, 60
			pf.Cancellers, pf.CancelOps = [2]int{0, 1}, [2]int{1, 3}
			pf.Cancel = []wop{{opPurge, 3}, {opCloseQueue, 3}, {opCloseJob, 3}, {opYield, 2}}
			pf.Samplers, pf.SampleOps = [2]int{0, 1}, [2]int{1, 4}
			pf.Sample = []wop{{opBatchPendingAny, 5}, {opYield, 2}}
			pf.CloseInFnPct = 10 // a refused Close on an executing batch item must change nothing
			if r.Chance(15) {
				// batches on a worker that is paused, stopped and restarted: purged and cancelled
				// items are counted out whatever the worker's state
				pf.Ctrl = []wop{{opPause, 3}, {opStop, 2}, {opResume, 3}, {opRestart, 2}, {opSettle, 2}}
				pf.CtrlOps = [2]int{1, 4}
				pf.CtrlGapPct = 40
			}
			big := bigBatch(pf, r, tier)
			c, p := generate(r, pf)
			if !big && p.NBatches > 0 && r.Chance(15) {
				// fire and forget: the caller abandons a batch with Drain while its items are
				// still being executed; nothing may crash and Wait must still return
				var ops []Op
				for k := r.Intn(6); k > 0; k-- {
					ops = append(ops, Op{K: opYield})
				}
				ops = append(ops, Op{K: opBatchDrain, A: r.Intn(p.NBatches)})
				p.Tasks = append(p.Tasks, ops)
			}
			return c, p
		},
		NonTrivial: func(ep *Episode) bool {
			for _, b := range ep.W.batches {
				if b == nil {
					continue
				}
				tasks := map[int]bool{}
				for _, x := range b.subs {
					s := ep.W.subs[x]
					for _, t := range s.EntryTask {
						tasks[t] = true
					}
				}
				if len(tasks) >= 2 || len(b.subs) == 0 {
					return true
				}
			}
			return false
		},
	})
}

func init() {
	// C19 — data races: the union of the other workloads under the race detector
	register(&Property{ID: "C19", NoRerun: true,
		Rule: "episodes of the API-fuzz mix (every other property's workload) executed in a -race build with >=1 context switch inside library code; distinct = schedule/program hash; a reported race counts when both racing accesses are in library code",
		Gen: func(r *simrt.Rand, tier string) (Cfg, *Program) {
			ids := []string{"C01", "C02", "C03", "C05", "C06", "C07", "C08", "C09", "C10", "C16", "C17", "C14", "C18", "C11", "C13", "C15"}
			var cands []*Property
			for _, id := range ids {
				if p := properties[id]; p != nil && p.Gen != nil && p.Hook == nil {
					cands = append(cands, p)
				}
			}
			if r.Chance(30) {
				return genFuzz(r, tier)
			}
			p := cands[r.Intn(len(cands))]
			return p.Gen(r, tier)
		},
	})
}

// genFuzz: every public method from several tasks at once, including two
// concurrent controllers and introspection readers.
func genFuzz(r *simrt.Rand, tier string) (Cfg, *Program) {
	pf := baseProfile()
	pf.QKinds = allKinds
	pf.NQ = [2]int{1, 2}
	pf.Expiry = []int{0, 1, 50}
	pf.TickW = []int{0, 5}
	pf.UseCtxPct = 50
	pf.BatchPct, pf.BatchMax = 25, 5
	pf.GatedPct, pf.DelayPct = 10, 30
	pf.ErrPct, pf.PanicPct = 20, 10
	pf.IDGenPct = 30
	pf.Ctrl = []wop{{opPause, 2}, {opResume, 3}, {opPauseAndWait, 1}, {opStop, 2}, {opRestart, 3}, {opTune, 3}, {opWUF, 1}, {opBind, 1}, {opCancelCtx, 1}, {opIntro, 3}}
	pf.CtrlOps = [2]int{2, 7}
	pf.CtrlGapPct = 30
	pf.Cancellers, pf.CancelOps = [2]int{0, 2}, [2]int{1, 4}
	pf.Cancel = []wop{{opCloseJob, 6}, {opPurge, 2}, {opCloseQueue, 1}}
	pf.Waiters, pf.WaitOps = [2]int{0, 2}, [2]int{1, 4}
	pf.Wait = []wop{{opWait, 3}, {opResult, 4}, {opDrain, 2}, {opStatus, 2}}
	pf.Samplers, pf.SampleOps = [2]int{1, 3}, [2]int{2, 6}
	pf.Sample = []wop{{opIntro, 6}, {opSample, 2}, {opQueuePending, 2}, {opStatus, 2}}
	pf.ReaderPct, pf.BatchWaitPct = 50, 50
	pf.ErrReaderPct = 50
	pf.Releaser = 50
	c, p := generate(r, pf)
	// a second controller running concurrently with the first
	if r.Chance(60) {
		var ops []Op
		for i, n := 0, 1+r.Intn(5); i < n; i++ {
			k := pickW(r, pf.Ctrl)
			op := Op{K: k}
			if k == opTune {
				op.A = pick(r, pf.Tunes)
			}
			if k == opBind {
				op.A = pick(r, memKinds)
			}
			if k == opIntro {
				op.A = r.Intn(4)
			}
			ops = append(ops, op)
		}
		p.Tasks = append(p.Tasks, ops)
	}
	return c, p
}

// pseudo op kinds resolved by the generator
const (
	opWUFw            = opWUF
	opLongIdle        = opAdvance + 100 // resolved to Settle + a long Advance
	opBatchPendingAny = opBatchPending
)

func countAccepted(ep *Episode) int {
	n := 0
	for _, s := range ep.W.subs {
		if s.Submitted && s.AcceptKnown && s.Accepted {
			n++
		}
	}
	return n
}
