package varmq

// C18 — pool size, idle trimming, goroutine hygiene (DESIGN §5 C18).

import "github.com/goptics/varmq/internal/simrt"

func init() {
	register(&Property{ID: "C18", Owns: []string{"C02.a", "C03.b", "C01.a", "C01.d"},
		Rule: "episodes with TunePool sequences under gated load and/or Stop/Restart cycles and/or idle expiry, with >=1 at-rest census of the library's goroutines; distinct = schedule/program hash",
		Gen: func(r *simrt.Rand, tier string) (Cfg, *Program) {
			pf := baseProfile()
	pf.ReenterPct, pf.ReenterTune = 8, true // worker functions that call back into the library, TunePool included
			pf.WrapDeqPct = 15 // user-supplied queues that refuse a dequeue now and then
			pf.Conc = []int{1, 2, 3, 4, 8}
			pf.Ratio = []int{0, 1, 25, 50, 100}
			pf.Expiry = []int{0, 0, 1, 50}
			pf.TickW = []int{0, 3, 10}
			pf.UseCtxPct = 40
			pf.Producers, pf.Adds = [2]int{1, 2}, [2]int{2, 8}
			pf.GatedPct = pick(r, []int{0, 50, 90})
			pf.DelayPct, pf.MaxDelay = 30, 3
			pf.Ctrl = []wop{{opTune, 6}, {opSettle, 5}, {opAdvance, 3}, {opStop, 2}, {opRestart, 3}, {opPause, 1}, {opResume, 1}, {opLongIdle, 2}, {opCancelCtx, 1}}
			pf.CtrlOps = [2]int{2, 10}
			pf.CtrlGapPct = 20
			pf.Tunes = []int{1, 2, 3, 4, 6, 8, 0}
			pf.Releaser = 100
			pf.WarmPct = 35
			// cancelled jobs are dequeued and skipped: that path must not strand a pool goroutine
			pf.Cancellers, pf.CancelOps = [2]int{0, 1}, [2]int{1, 4}
			pf.Cancel = []wop{{opCloseJob, 8}, {opPurge, 1}}
			if r.Chance(12) {
				// a burst grows the pool, then single short jobs keep arriving with a period well
				// below the idle expiry for more than three expiry periods: the one worker serving
				// them stays fresh, the others have been idle that long and must be retired
				pf.Expiry = []int{8}
				pf.Conc = []int{3, 4, 8}
				pf.WarmPct = 100
				pf.Producers, pf.Ctrl, pf.CtrlOps = [2]int{0, 0}, nil, [2]int{0, 0}
				pf.Cancellers, pf.UseCtxPct, pf.TickW = [2]int{0, 0}, 0, []int{0}
				c, p := generate(r, pf)
				ops := []Op{{K: opAwaitWarm}}
				for i := 0; i < 16; i++ {
					n := len(p.Subs)
					p.Subs = append(p.Subs, SubT{N: n, Q: 0, Batch: -1})
					ops = append(ops, Op{K: opAdd, Q: 0, Subs: []int{n}}, Op{K: opAdvance, A: 2})
				}
				ops = append(ops, Op{K: opSettle, A: 4})
				p.Tasks = append(p.Tasks, ops)
				return c, p
			}
			return generate(r, pf)
		},
		Judge: judgeC18,
		NonTrivial: func(ep *Episode) bool {
			for _, c := range ep.W.rec.calls {
				if c.K == opSample && c.Arg == 30 && c.AtRest {
					return true
				}
			}
			return false
		},
	})
}

func judgeC18(j *judgeCtx) {
	judgeConservation(j)
	wd := j.wd
	// largest concurrency configured so far, as a function of time
	maxConc := func(seq uint64) int {
		m := wd.effConc(wd.cfg.Conc)
		for _, c := range j.r.calls {
			if c.K == opTune && c.Inv <= seq && (c.Ret == 0 || c.Err == "") {
				if n := wd.effConc(c.Arg); n > m {
					m = n
				}
			}
		}
		return m
	}
	for _, c := range j.r.calls {
		if c.K != opSample || !c.AtRest || c.Ret == 0 {
			continue
		}
		st := j.stateAt(c.Inv)
		if st == lsU {
			continue
		}
		infl := j.inflightAt(c.Inv)
		switch c.Arg {
		case 30:
			if m := maxConc(c.Inv); c.Val > m {
				j.add("C18.a", c.Ret, "%d worker goroutines are alive at a quiescent point, but the largest concurrency ever configured is %d", c.Val, m)
			}
			if st == lsS && c.Val > 0 && (j.raceCancelAt == 0 || c.Inv < j.raceCancelAt) {
				j.add("C18.e", c.Ret, "%d pool goroutines are still alive at a quiescent point after Stop returned", c.Val)
			}
		case 4:
			if m := maxConc(c.Inv); c.Val+infl > m {
				j.add("C18.a", c.Ret, "NumIdleWorkers() = %d plus %d executing exceeds the largest concurrency ever configured (%d)", c.Val, infl, m)
			}
			if st == lsR && c.Val < 1 && infl == 0 && wd.cancelled == 0 {
				// (a job still executing at the quiescent point - asleep on the simulated clock -
				// legitimately occupies the only pool goroutine)
				j.add("C18.b", c.Ret, "NumIdleWorkers() = %d on a running worker at rest: not even one idle worker is kept", c.Val)
			}
		case 31, 32, 33, 34:
			name := map[int]string{31: "event-loop", 32: "idle-worker-remover", 33: "context-listener", 34: "other library"}[c.Arg]
			if st == lsS && c.Val > 0 && (j.raceCancelAt == 0 || c.Inv < j.raceCancelAt) {
				j.add("C18.e", c.Ret, "%d %s goroutine(s) still alive at a quiescent point after Stop returned: leaked", c.Val, name)
			}
			if st == lsR && wd.cancelled == 0 {
				want := 1
				if c.Arg == 32 && wd.cfg.Expiry == 0 {
					want = 0
				}
				if c.Arg == 33 && !wd.cfg.UseCtx {
					want = 0
				}
				if c.Arg == 34 {
					want = 0
					continue // Drain helpers etc. are not part of the worker
				}
				if c.Val > want {
					j.add("C18.f", c.Ret, "%d %s goroutines alive on a running worker at rest (expected %d): they accumulate across Stop/Restart cycles", c.Val, name, want)
				}
			}
		case 22:
			// after a trickle of single jobs over more than 3 expiry periods: at most the
			// configured minimum plus the one worker the trickle itself kept fresh
			if st == lsR && wd.cfg.Expiry > 0 && wd.cancelled == 0 {
				ratio := wd.cfg.Ratio
				if ratio > 100 {
					ratio = 100
				}
				target := c.Val2 * ratio / 100
				if target < 1 {
					target = 1
				}
				// (simulated time only moves when everything is blocked: the previous job is long
				// over when the next one arrives, so exactly one worker is kept fresh)
				if c.Val > target+1 {
					j.add("C18.c", c.Ret, "NumIdleWorkers() = %d after single jobs had trickled in for more than 3 expiry periods (concurrency %d, min-idle ratio %d): the workers that were idle all that time have not been retired", c.Val, c.Val2, ratio)
				}
			}
		case 21:
			// after >= 3 expiry periods of idleness
			if st == lsR && wd.cfg.Expiry > 0 && wd.cancelled == 0 {
				ratio := wd.cfg.Ratio
				if ratio > 100 {
					ratio = 100
				}
				target := c.Val2 * ratio / 100
				if target < 1 {
					target = 1
				}
				if c.Val > target {
					j.add("C18.c", c.Ret, "NumIdleWorkers() = %d after the worker was idle for 3 expiry periods; the configured minimum is max(%d*%d/100, 1) = %d", c.Val, c.Val2, ratio, target)
				}
			}
		}
	}
}
