package varmq

// Harness core (DESIGN §4): one World per episode = worker + queues + recorder.
// This file: configuration, world construction, typed adapters over the three
// worker kinds and six queue kinds.  Every top-level function in the harness is
// made //go:norace by the build step; closures here only call methods.

import (
	"runtime"
	"context"
	"errors"
	"fmt"
	"strings"
	"sync"
	"time"

	"github.com/goptics/varmq/internal/queues"
	"github.com/goptics/varmq/internal/simrt"
)

const (
	wkPlain = iota
	wkErr
	wkResult
)

const (
	qkStd = iota
	qkPrio
	qkPers
	qkPersPrio
	qkDist
	qkDistPrio
)

var qkNames = []string{"std", "prio", "pers", "persprio", "dist", "distprio"}
var wkNames = []string{"plain", "err", "result"}

const timeUnit = time.Millisecond

// QCfg configures one bound queue.
type QCfg struct {
	Kind int  `json:"kind"`
	Wrap bool `json:"wrap"` // bind through With*Queue(recording wrapper) instead of Bind*
	// adapter faults (percent per call)
	FEnq int `json:"fenq,omitempty"`
	FDeq int `json:"fdeq,omitempty"`
	// FDeqBurst: the backend refuses this many dequeues in a row (while it holds items), once
	FDeqBurst int `json:"fdeqburst,omitempty"`
	Bound  int  `json:"bound,omitempty"`  // in-memory user queue with this capacity whose Enqueue waits while it is full
	AckCap bool `json:"ackcap,omitempty"` // in-memory user queue that also has the acknowledgement methods (refuses half of the acknowledgements)
	FAck int `json:"fack,omitempty"`
	FAckLost  int `json:"facklost,omitempty"`  // percent of acknowledgements that are applied but answered "refused"
	FAckStall int `json:"fackstall,omitempty"` // percent of acknowledgements that stall until the next Settle
	FNoAckID  int `json:"fnoackid,omitempty"`  // percent of deliveries handed out without an acknowledgement id (the backend wants none for them)
	// notification faults (distributed)
	NDelay int `json:"ndelay,omitempty"` // max delay in time units
	NDup   int `json:"ndup,omitempty"`   // percent duplicated
	NSync  bool `json:"nsync,omitempty"` // the backend runs the callbacks synchronously inside Enqueue under the lock that also guards Len and the dequeues
	NOther int `json:"nother,omitempty"` // percent of dequeues that are announced too (action "dequeued")
}

// Cfg is the explicit configuration of an episode (stored in replay files).
type Cfg struct {
	Prop      string `json:"prop"`
	WKind     int    `json:"wkind"`
	Conc      int    `json:"conc"`   // value passed to the constructor (<1: NumCPU)
	Expiry    int    `json:"expiry"` // idle expiry in time units, 0 = off
	Ratio     int    `json:"ratio"`  // min idle ratio, 0 = unset
	Strategy  int    `json:"strategy"`
	UseCtx    bool   `json:"usectx,omitempty"`
	Queues    []QCfg `json:"queues"`
	ChunkInit int    `json:"chunkinit"`
	ChunkMax  int    `json:"chunkmax"`
	ErrReader bool   `json:"errreader,omitempty"`
	IDGen     bool   `json:"idgen,omitempty"`
	ConcForm  int    `json:"concform,omitempty"` // how the concurrency is spelled: 0 WithConcurrency(n); 1 bare int first; 2 bare int last; 3 bare int, then WithConcurrency(n)
	// simulator options
	Strat    int `json:"strat"`
	Stick    int `json:"stick"`
	PCTDepth int `json:"pctdepth"`
	Horizon  int `json:"horizon"`
	Density  int `json:"density"`
	TickW    int `json:"tickw"`
	PoolDrop int `json:"pooldrop"`
	MaxSteps int `json:"maxsteps"`
	// consumers (C13) / extra
	Consumers int `json:"consumers,omitempty"`
	StartPaused bool `json:"startpaused,omitempty"` // pause the worker right after binding (C15 static mode)
	CrashAt   int `json:"crashat,omitempty"` // crash the process at this cut point (adapter call / fn entry / fn exit), 0 = never
}

// SubT is the generated part of a submission (stored in replay files).
type SubT struct {
	N       int    `json:"n"`               // unique number = payload
	Q       int    `json:"q,omitempty"`     // queue index
	Prio    int    `json:"prio,omitempty"`  // priority (priority queues)
	ID      string `json:"id,omitempty"`    // WithJobId / Item.ID ("" = none)
	Batch   int    `json:"batch"`           // batch index, -1 for single jobs
	Outcome int    `json:"outcome,omitempty"` // 0 ok, 1 error, 2 panic(string), 3 panic(error), 4 panic(int), 5 panic(struct)
	Delay   int    `json:"delay,omitempty"` // simulated run time in time units
	Gated   bool   `json:"gated,omitempty"`
	CloseInFn bool `json:"closeinfn,omitempty"` // the worker function calls Close() on its own job (must be refused: ErrJobProcessing)
	Pre     bool   `json:"pre,omitempty"`     // stored in the distributed backend by another producer before the consumer binds
	Reenter int    `json:"reenter,omitempty"` // the worker function calls back into the library: 1 introspection, 2 submits job Child, 3 TunePool, 4 Pause
	Child   int    `json:"child,omitempty"`   // submission number of the follow-up job (Reenter 2)
	IsChild bool   `json:"ischild,omitempty"` // submitted by another job's worker function, not by a client task
}

// Sub is one submission (an Add, or one item of an AddAll) with everything
// observed about it.
type Sub struct {
	SubT
	Submitted   bool
	AddInv      uint64
	AddRet      uint64
	AddOK       int // what the Add call itself returned: 0 unknown, 1 true, 2 false
	AcceptKnown bool
	Accepted    bool
	Enq         uint64 // wrapper/adapter: enqueue seq (accepted)
	Deq         uint64 // wrapper/adapter: last dequeue seq
	Entries     []uint64
	Exits       []uint64
	EntryTask   []int
	Worker      []int // consumer index per execution (C13)
	Purged      uint64 // seq at which a purge removed it
	PurgeTask   int    // task that removed it
	CloseInFnErr string
	CloseInFnSeq uint64
	IDSeen      string
	StatusInFn  string
	AckIDs      []string
	gate        simrt.Gate
	h           *hnd
	ad          *simAdapter
	genID       string // id produced by the generator during its Add (IDGen)
	hb          sync.Mutex // real happens-before edge for handing the handle to another client task
}

// publish/acquire: a real program that passes a handle from one goroutine to
// another synchronises doing so (channel, mutex); the harness passes it through
// plain norace memory, so it adds exactly that edge and nothing else.
func (s *Sub) publish() { s.hb.Lock(); s.hb.Unlock() }
func (s *Sub) acquire() { s.hb.Lock(); s.hb.Unlock() }
func (b *bnd) publish() { b.hb.Lock(); b.hb.Unlock() }
func (b *bnd) acquire() { b.hb.Lock(); b.hb.Unlock() }

type hnd struct {
	ej EnqueuedJob
	ee EnqueuedErrJob
	er EnqueuedResultJob[int]
}

type bnd struct {
	idx   int
	subs  []int
	gj    EnqueuedGroupJob
	ge    EnqueuedErrGroupJob
	gr    EnqueuedResultGroupJob[int]
	inv   uint64
	ret   uint64
	// stream observations
	got       []streamItem
	closedAt  uint64
	readerEnd bool
	waitRets  []uint64
	hb        sync.Mutex
}

type streamItem struct {
	Seq   uint64
	JobID string
	Data  int
	Err   string
	IsErr bool
}

// qh is a bound queue seen through one uniform interface.
type qh struct {
	idx    int
	cfg    QCfg
	add    func(v int, prio int, id string) (*hnd, bool)
	addBare func(v int, prio int, id string) bool
	addAll func(items []Item[int], b *bnd)
	purge  func()
	close  func() error
	nump   func() int
	rq     *recQ     // recording wrapper (mem queues bound with Wrap)
	ad     *simAdapter // simulated adapter (persistent / distributed kinds)
	closeInv, closeRet uint64
	addsInvoked int
	preloaded   int
	boundAt uint64
	boundRet uint64 // the binding call had returned by then
	hb      sync.Mutex // handing the queue handle to other client tasks (see Sub.publish)
}

type World struct {
	cfg   Cfg
	prog  *Program
	rec   *Recorder
	w     Worker
	bind  func(kind int, qc QCfg) *qh // binds another queue to the worker
	qs    []*qh
	subs  []*Sub // indexed by N
	batches []*bnd
	hsel  []int // submitted subs in submission order (handle selectors index here)
	ctx    context.Context
	cancel context.CancelFunc
	cancelled uint64
	genCount int
	// lifecycle reference + barrier bookkeeping (see rec.go)
	inflight   int
	maxInflight int
	errsSeen   []string
	errsSeenSeq []uint64 // when each was taken off Errs()
	errReaderOn bool
	epilogue   bool
	numCPU     int
	oldCaps    [2]int
	consumers  []*World // C13: further consumer workers on the same adapter
	cidx       int
	root       *World
	hasWarm, warmDone bool // warm-up task present / finished (opWarmDone, opAwaitWarm)
	stallEpoch int // bumped to release stalled acknowledgements (root world only)
	stalledNow int // acknowledgements currently stalled (root world only)
	sharedAd   *simAdapter
	binding    *World
	crashed    bool
	crashes    int
	crashStep  uint64
	finalDone  bool
	probeSub   int
	cuts       int
	crashHadState bool
	itemsAtBind   int
	rootTaskID int
	scripts    []*scriptTask
}

// spawnConsumer creates a further worker (own World, same recorder and
// submissions) bound to the root's shared adapter: a second consumer process
// (C13) or the recovery incarnation after a crash (C11).
func (wd *World) spawnConsumer(conc int, qc QCfg) *World {
	root := wd.root
	c := &World{cfg: root.cfg, prog: root.prog, rec: root.rec, subs: root.subs, root: root, cidx: len(root.consumers) + 1, numCPU: root.numCPU}
	c.cfg.Conc = conc
	c.cfg.UseCtx = false
	c.cfg.IDGen = false
	root.consumers = append(root.consumers, c)
	c.makeWorker()
	root.binding = c
	if root.sharedAd != nil {
		root.itemsAtBind += len(root.sharedAd.pending)
	}
	c.bindQueue(qc, nil)
	root.binding = nil
	return c
}

// cut is called at every crash cut point (adapter call, worker-function entry
// and exit): the CrashAt-th one kills the process.
func (wd *World) cut() {
	root := wd.root
	root.cuts++
	if root.cfg.CrashAt == 0 || root.cuts != root.cfg.CrashAt || root.crashed {
		return
	}
	root.crashed = true
	root.crashes++
	root.crashStep = simrt.Step()
	root.rec.probes[pbCrashInjected]++
	for _, c := range root.consumers {
		c.crashed = true
	}
	simrt.DropReplay()
	rootTask := root.rootTaskID
	simrt.Freeze(func(t *simrt.Task) bool { return t.ID != rootTask })
	// the task that reached the cut point dies as well
	simrt.Block(never)
}

func never() bool { return false }

// isCrashedTask: the task belongs to a process incarnation that was killed.
func (wd *World) isCrashedTask(t *simrt.Task) bool {
	return t.Frozen || (wd.root.crashes > 0 && t.Born < wd.root.crashStep && t.Lib)
}

var errBoom = errors.New("boom")

func expectedValue(v int) int { return v*31 + 7 }
// every fourth failing submission returns an error whose value is the zero value of its
// (non-pointer) type - like context.DeadlineExceeded or a sentinel `type ErrX struct{}`
func expectedErrText(v int) string {
	if v%4 == 3 {
		return "e<zero>"
	}
	return fmt.Sprintf("e<%d>", v)
}

type zeroErr struct{}

func (zeroErr) Error() string { return "e<zero>" }
func expectedPanicText(v int) string { return fmt.Sprintf("p<%d>", v) }

type panicErr struct{ v int }

type panicStruct struct {
	N    int
	Tags []string
}

// panicMatches: does error text e carry the panic of submission s? Panics with a
// string or an error must show their text; for other values the property only
// says the panic becomes the job's error: any non-nil error.
func panicMatches(s *Sub, e string) bool {
	if s.Outcome >= 4 {
		return e != ""
	}
	return strings.Contains(e, expectedPanicText(s.N))
}

func (p panicErr) Error() string { return expectedPanicText(p.v) }

type codedErr struct{ v int }

func (e codedErr) Error() string { return expectedErrText(e.v) }

// fnBody is the worker function shared by the three worker kinds.
func (wd *World) fnBody(j Job[int]) (int, error) {
	v := j.Data()
	s := wd.root.enter(wd, v, j)
	if s == nil {
		return 0, nil
	}
	if s.CloseInFn {
		if c, ok := any(j).(interface{ Close() error }); ok {
			err := c.Close()
			s.CloseInFnErr = "nil"
			if err != nil {
				s.CloseInFnErr = err.Error()
			}
			s.CloseInFnSeq = wd.root.rec.stamp()
		}
	}
	if s.Delay > 0 {
		simrt.Sleep(time.Duration(s.Delay) * timeUnit)
	}
	if s.Gated {
		s.gate.Wait()
	}
	// (after the wait, so that lifecycle calls issued meanwhile are under way when it calls back)
	switch s.Reenter {
	case 1:
		// a worker function may look at its worker and queue like anybody else
		wd.runOp(Op{K: opIntro, Q: s.Q})
	case 2:
		// ... and submit follow-up work
		wd.runOp(Op{K: opAdd, Q: s.Q, Subs: []int{s.Child}})
	case 4:
		// ... or pause its own worker (a circuit breaker)
		wd.runOp(Op{K: opPause})
	case 3:
		// ... or tune the pool it runs in (refused with ErrNotRunningWorker while a stop waits for this very job)
		wd.runOp(Op{K: opTune, A: 1 + s.N%4})
	}
	wd.root.exit(wd, s)
	switch s.Outcome {
	case 1:
		if v%4 == 3 {
			return 0, zeroErr{}
		}
		if v%2 == 1 {
			return 0, codedErr{v} // same text, another dynamic type than errors.New
		}
		return 0, errors.New(expectedErrText(v))
	case 2:
		panic(expectedPanicText(v))
	case 3:
		panic(panicErr{v})
	case 4:
		panic(1000000 + v) // neither a string, an error nor a Stringer
	case 5:
		panic(panicStruct{N: v, Tags: []string{"x"}})
	}
	return expectedValue(v), nil
}

func (wd *World) configs() []any {
	c := wd.cfg
	var cs []any
	switch c.ConcForm {
	case 1, 2:
		cs = append(cs, c.Conc) // NewWorker(fn, n): the documented short form
	case 3:
		cs = append(cs, 7, WithConcurrency(c.Conc)) // the later option wins
	default:
		cs = append(cs, WithConcurrency(c.Conc))
	}
	if c.Expiry > 0 {
		cs = append(cs, WithIdleWorkerExpiryDuration(time.Duration(c.Expiry)*timeUnit))
	}
	if c.Ratio > 0 {
		cs = append(cs, WithMinIdleWorkerRatio(uint8(c.Ratio)))
	}
	if c.Strategy != 0 {
		cs = append(cs, WithStrategy(Strategy(c.Strategy)))
	}
	if c.UseCtx {
		wd.ctx, wd.cancel = context.WithCancel(context.Background())
		cs = append(cs, WithContext(wd.ctx))
	}
	if c.IDGen {
		cs = append(cs, WithJobIdGenerator(wd.genID))
	}
	if c.ConcForm == 2 && len(cs) > 1 {
		cs = append(cs[1:len(cs):len(cs)], cs[0])
	}
	return cs
}

func (wd *World) genID() string {
	wd.genCount++
	id := fmt.Sprintf("gen-%d-%d", wd.cidx, wd.genCount)
	r := wd.root.rec
	r.gens = append(r.gens, genEv{Seq: r.stamp(), Task: simrt.CurID(), ID: id})
	return id
}

// effective concurrency for a constructor/TunePool argument
func (wd *World) effConc(n int) int {
	if n < 1 {
		return wd.numCPU
	}
	return n
}

func newWorld(cfg Cfg, prog *Program) *World {
	wd := &World{cfg: cfg, prog: prog}
	wd.root = wd
	wd.rec = newRecorder(wd)
	wd.numCPU = runtime.NumCPU() // the documented meaning of a concurrency < 1, not the library's own helper
	for i := range prog.Subs {
		wd.subs = append(wd.subs, &Sub{SubT: prog.Subs[i]})
	}
	wd.batches = make([]*bnd, prog.NBatches)
	return wd
}

// setup creates the worker and binds the configured queues (runs in the root task).
func (wd *World) setup() {
	a, b := queues.VerifSetCaps(wd.cfg.ChunkInit, wd.cfg.ChunkMax)
	wd.oldCaps = [2]int{a, b}
	wd.makeWorker()
	for _, qc := range wd.cfg.Queues {
		wd.bindQueue(qc, nil)
	}
	if wd.cfg.StartPaused {
		c := wd.rec.begin(opPause, -1, -1)
		c.Err = errText(wd.w.Pause())
		wd.rec.end(c)
	}
}

// preload: jobs marked Pre are put into the distributed backend through a producer-only
// handle ("another process") before this worker binds the queue as a consumer.
func (wd *World) preload(q *qh) {
	idx := len(wd.qs)
	r := wd.root.rec
	for _, s := range wd.subs {
		if !s.Pre || s.Q != idx || s.Submitted || wd != wd.root {
			continue
		}
		c := r.begin(opAdd, idx, s.N)
		c.Arg = 1
		s.AddInv = c.Inv
		ok := q.addBare(s.N, s.Prio, s.ID)
		c.OK = ok
		if !s.AcceptKnown {
			s.AcceptKnown, s.Accepted = true, ok
		}
		r.end(c)
		s.AddRet = c.Ret
		s.publish()
		s.Submitted = true
		q.addsInvoked++
		q.preloaded++
	}
}

func (wd *World) teardown() {
	queues.VerifSetCaps(wd.oldCaps[0], wd.oldCaps[1])
}

func (wd *World) bindQueue(qc QCfg, shared *simAdapter) *qh {
	r := wd.root.rec
	inv := r.stamp()
	q := wd.bind(qc.Kind, qc)
	_ = shared
	q.idx = len(wd.qs)
	q.cfg = qc
	q.boundAt = inv
	q.boundRet = r.stamp()
	if q.rq != nil {
		q.rq.fdeq = qc.FDeq
		q.rq.bound = qc.Bound
	}
	q.hb.Lock()
	q.hb.Unlock()
	wd.qs = append(wd.qs, q)
	r.lifeBind(wd, inv)
	return q
}

func (wd *World) makeWorker() {
	switch wd.cfg.WKind {
	case wkPlain:
		b := NewWorker(func(j Job[int]) { wd.fnBody(j) }, wd.configs()...)
		wd.w = b
		wd.bind = func(kind int, qc QCfg) *qh { return wd.bindPlain(b, kind, qc) }
	case wkErr:
		b := NewErrWorker(func(j Job[int]) error { _, err := wd.fnBody(j); return err }, wd.configs()...)
		wd.w = b
		wd.bind = func(kind int, qc QCfg) *qh { return wd.bindErr(b, kind, qc) }
	default:
		b := NewResultWorker(func(j Job[int]) (int, error) { return wd.fnBody(j) }, wd.configs()...)
		wd.w = b
		wd.bind = func(kind int, qc QCfg) *qh { return wd.bindResult(b, kind, qc) }
	}
}

func jobCfg(id string) []JobConfigFunc {
	if id == "" {
		return nil
	}
	return []JobConfigFunc{WithJobId(id)}
}

func (wd *World) bindPlain(b IWorkerBinder[int], kind int, qc QCfg) *qh {
	q := &qh{}
	switch kind {
	case qkStd:
		var lq Queue[int]
		if qc.Wrap {
			q.rq = newRecQ(wd, queues.NewQueue[iJob[int]](), nil)
			lq = b.WithQueue(userQueue(q.rq, qc))
		} else {
			lq = b.BindQueue()
		}
		q.add = func(v, prio int, id string) (*hnd, bool) {
			h, ok := lq.Add(v, jobCfg(id)...)
			if !ok {
				return nil, false
			}
			return &hnd{ej: h}, true
		}
		q.addAll = func(items []Item[int], b *bnd) { b.gj = lq.AddAll(items) }
		q.purge, q.close, q.nump = lq.Purge, lq.Close, lq.NumPending
	case qkPrio:
		var lq PriorityQueue[int]
		if qc.Wrap {
			q.rq = newRecQ(wd, nil, queues.NewPriorityQueue[iJob[int]]())
			lq = b.WithPriorityQueue(&recPQ{q.rq})
		} else {
			lq = b.BindPriorityQueue()
		}
		q.add = func(v, prio int, id string) (*hnd, bool) {
			h, ok := lq.Add(v, prio, jobCfg(id)...)
			if !ok {
				return nil, false
			}
			return &hnd{ej: h}, true
		}
		q.addAll = func(items []Item[int], b *bnd) { b.gj = lq.AddAll(items) }
		q.purge, q.close, q.nump = lq.Purge, lq.Close, lq.NumPending
	case qkPers:
		q.ad = wd.adapterFor(qc, false)
		lq := b.WithPersistentQueue(adQ{q.ad})
		q.add = func(v, prio int, id string) (*hnd, bool) { return nil, lq.Add(v, jobCfg(id)...) }
		q.purge, q.close, q.nump = lq.Purge, lq.Close, lq.NumPending
	case qkPersPrio:
		q.ad = wd.adapterFor(qc, true)
		lq := b.WithPersistentPriorityQueue(adPQ{q.ad})
		q.add = func(v, prio int, id string) (*hnd, bool) { return nil, lq.Add(v, prio, jobCfg(id)...) }
		q.purge, q.close, q.nump = lq.Purge, lq.Close, lq.NumPending
	case qkDist:
		q.ad = wd.adapterFor(qc, false)
		bare := NewDistributedQueue[int](adQ{q.ad})
		q.addBare = func(v, prio int, id string) bool { return bare.Add(v, jobCfg(id)...) }
		wd.preload(q)
		lq := b.WithDistributedQueue(adQ{q.ad})
		q.add = func(v, prio int, id string) (*hnd, bool) { return nil, lq.Add(v, jobCfg(id)...) }
		q.purge, q.close, q.nump = lq.Purge, lq.Close, lq.NumPending
	case qkDistPrio:
		q.ad = wd.adapterFor(qc, true)
		bare := NewDistributedPriorityQueue[int](adPQ{q.ad})
		q.addBare = func(v, prio int, id string) bool { return bare.Add(v, prio, jobCfg(id)...) }
		wd.preload(q)
		lq := b.WithDistributedPriorityQueue(adPQ{q.ad})
		q.add = func(v, prio int, id string) (*hnd, bool) { return nil, lq.Add(v, prio, jobCfg(id)...) }
		q.purge, q.close, q.nump = lq.Purge, lq.Close, lq.NumPending
	}
	return q
}

func (wd *World) bindErr(b IErrWorkerBinder[int], kind int, qc QCfg) *qh {
	q := &qh{}
	if kind == qkPrio {
		var lq ErrPriorityQueue[int]
		if qc.Wrap {
			q.rq = newRecQ(wd, nil, queues.NewPriorityQueue[iErrorJob[int]]())
			lq = b.WithPriorityQueue(&recPQ{q.rq})
		} else {
			lq = b.BindPriorityQueue()
		}
		q.add = func(v, prio int, id string) (*hnd, bool) {
			h, ok := lq.Add(v, prio, jobCfg(id)...)
			if !ok {
				return nil, false
			}
			return &hnd{ej: h, ee: h}, true
		}
		q.addAll = func(items []Item[int], b *bnd) { b.ge = lq.AddAll(items) }
		q.purge, q.close, q.nump = lq.Purge, lq.Close, lq.NumPending
		return q
	}
	var lq ErrQueue[int]
	if qc.Wrap {
		q.rq = newRecQ(wd, queues.NewQueue[iErrorJob[int]](), nil)
		lq = b.WithQueue(userQueue(q.rq, qc))
	} else {
		lq = b.BindQueue()
	}
	q.add = func(v, prio int, id string) (*hnd, bool) {
		h, ok := lq.Add(v, jobCfg(id)...)
		if !ok {
			return nil, false
		}
		return &hnd{ej: h, ee: h}, true
	}
	q.addAll = func(items []Item[int], b *bnd) { b.ge = lq.AddAll(items) }
	q.purge, q.close, q.nump = lq.Purge, lq.Close, lq.NumPending
	return q
}

func (wd *World) bindResult(b IResultWorkerBinder[int, int], kind int, qc QCfg) *qh {
	q := &qh{}
	if kind == qkPrio {
		var lq ResultPriorityQueue[int, int]
		if qc.Wrap {
			q.rq = newRecQ(wd, nil, queues.NewPriorityQueue[iResultJob[int, int]]())
			lq = b.WithPriorityQueue(&recPQ{q.rq})
		} else {
			lq = b.BindPriorityQueue()
		}
		q.add = func(v, prio int, id string) (*hnd, bool) {
			h, ok := lq.Add(v, prio, jobCfg(id)...)
			if !ok {
				return nil, false
			}
			return &hnd{ej: h, er: h}, true
		}
		q.addAll = func(items []Item[int], b *bnd) { b.gr = lq.AddAll(items) }
		q.purge, q.close, q.nump = lq.Purge, lq.Close, lq.NumPending
		return q
	}
	var lq ResultQueue[int, int]
	if qc.Wrap {
		q.rq = newRecQ(wd, queues.NewQueue[iResultJob[int, int]](), nil)
		lq = b.WithQueue(userQueue(q.rq, qc))
	} else {
		lq = b.BindQueue()
	}
	q.add = func(v, prio int, id string) (*hnd, bool) {
		h, ok := lq.Add(v, jobCfg(id)...)
		if !ok {
			return nil, false
		}
		return &hnd{ej: h, er: h}, true
	}
	q.addAll = func(items []Item[int], b *bnd) { b.gr = lq.AddAll(items) }
	q.purge, q.close, q.nump = lq.Purge, lq.Close, lq.NumPending
	return q
}

// ---------------------------------------------------------------- recording wrapper for in-memory queues

type innerQ interface {
	Len() int
	Dequeue() (any, bool)
	Values() []any
	Purge()
	Close() error
}

// recQ wraps a real internal queue and records what crosses the IQueue seam.
type recQ struct {
	wd   *World
	fifo interface {
		innerQ
		Enqueue(item any) bool
	}
	heap interface {
		innerQ
		Enqueue(item any, priority int) bool
	}
	in     innerQ
	mu     simrt.Mutex
	serial bool // serialise enqueues with the other wrapper calls (C04 layer W: record order = queue order)
	items  []qItem
	rejected []qItem // items the queue refused: the library must have closed them
	objs   map[int]any // submission -> the job object the library put into the queue (a job handle too)
	qi     int
	lens   []lenObs
	recLen bool
	ackSeq, Acks int
	seen    []any // every job object handed to Enqueue, in order
	seenMu  sync.Mutex
	bound   int // > 0: capacity of this user queue; Enqueue waits while it is full
	Blocked int
	fdeq   int // percent of dequeues on a non-empty queue that this (user-supplied) queue refuses
	Refused int
}

type qItem struct {
	item any
	sub  int
}

type lenObs struct {
	Seq  uint64
	N    int
	Task int
	Sel  bool // asked by the manager's round-robin selection (as opposed to a pending count)
}

// inSelection reports whether the current Len() call comes from the queue manager's
// round-robin selection (C15 only: the selection itself becomes observable, not just the
// dequeue that follows it).
func inSelection() bool {
	var pcs [10]uintptr
	n := runtime.Callers(2, pcs[:])
	for _, pc := range pcs[:n] {
		v, ok := selPC[pc]
		if !ok {
			f := runtime.FuncForPC(pc - 1)
			v = f != nil && strings.Contains(f.Name(), "GetRoundRobinItem")
			selPC[pc] = v
		}
		if v {
			return true
		}
	}
	return false
}

var selPC = map[uintptr]bool{}

type recPQ struct{ *recQ }

// recAQ is the same user-supplied in-memory queue with the acknowledgement methods of a
// persistent adapter on top (the repository's own mock persistent queue is bound with
// WithQueue in its suite, too).  It stores job objects, not bytes; whatever the worker
// does with the acknowledgement side must not disturb the handles of those jobs.
type recAQ struct{ *recQ }

func (r recAQ) DequeueWithAckId() (any, bool, string) {
	v, ok := r.recQ.Dequeue()
	if !ok {
		return nil, false, ""
	}
	r.ackSeq++
	return v, true, "uq-" + itoa(r.ackSeq)
}

func (r recAQ) Acknowledge(id string) bool {
	simrt.YieldAlways()
	r.Acks++
	return !simrt.Chance(50)
}

func userQueue(r *recQ, qc QCfg) IQueue {
	if qc.AckCap {
		return &recAQ{r}
	}
	return r
}

func newRecQ(wd *World, f interface {
	innerQ
	Enqueue(item any) bool
}, h interface {
	innerQ
	Enqueue(item any, priority int) bool
}) *recQ {
	r := &recQ{wd: wd, qi: len(wd.qs), serial: wd.root.cfg.Prop == "C04", recLen: wd.root.cfg.Prop == "C15"}
	if f != nil {
		r.fifo, r.in = f, f
	} else {
		r.heap, r.in = h, h
	}
	return r
}

func subOf(item any) int {
	if d, ok := item.(interface{ Data() int }); ok {
		return d.Data()
	}
	return -1
}

// The wrapper serialises its own calls with a simulated mutex so that each
// record is atomic with the inner operation it describes (the inner queue
// serialises them anyway; Len stays outside, it is the lock-free read).
// waitRoom: a bounded user queue makes the producer wait while it is full (backpressure).
func (r *recQ) waitRoom() {
	// (the wrapper's own bookkeeping, not the inner queue's Len: a readiness predicate must
	// not run library code)
	if r.bound > 0 && len(r.items) >= r.bound {
		r.Blocked++
		simrt.Block(func() bool { return len(r.items) < r.bound })
	}
}

func (r *recQ) Enqueue(item any) bool {
	r.waitRoom()
	sub := subOf(item)
	if r.serial {
		r.mu.Lock()
		ok := r.fifo.Enqueue(item)
		if ok {
			r.remember(item, sub)
		}
		r.wd.root.rec.qEnq(r.wd, r.qi, sub, ok)
		r.mu.Unlock()
		return ok
	}
	// Not serialised: concurrent producers must be able to interleave inside the
	// real Enqueue (segment hand-over!).  The item is registered first, so that a
	// dequeue can always be attributed; the enqueue record follows the operation.
	r.remember(item, sub)
	ok := r.fifo.Enqueue(item)
	if !ok {
		r.forget(item)
		r.rejected = append(r.rejected, qItem{item, sub})
	}
	r.wd.root.rec.qEnq(r.wd, r.qi, sub, ok)
	return ok
}

func (r recPQ) Enqueue(item any, priority int) bool {
	r.waitRoom()
	sub := subOf(item)
	if r.serial {
		r.mu.Lock()
		ok := r.heap.Enqueue(item, priority)
		if ok {
			r.remember(item, sub)
		}
		r.wd.root.rec.qEnq(r.wd, r.qi, sub, ok)
		r.mu.Unlock()
		return ok
	}
	r.remember(item, sub)
	ok := r.heap.Enqueue(item, priority)
	if !ok {
		r.forget(item)
		r.rejected = append(r.rejected, qItem{item, sub})
	}
	r.wd.root.rec.qEnq(r.wd, r.qi, sub, ok)
	return ok
}

func (r *recQ) Dequeue() (any, bool) {
	r.mu.Lock()
	if r.fdeq > 0 && !r.wd.root.epilogue && r.in.Len() > 0 && simrt.Chance(r.fdeq) {
		// a transient refusal, as a user-supplied IQueue may produce: nothing leaves the queue
		r.Refused++
		r.mu.Unlock()
		return nil, false
	}
	v, ok := r.in.Dequeue()
	if ok {
		r.wd.root.rec.qDeq(r.wd, r.qi, r.forget(v))
	}
	r.mu.Unlock()
	return v, ok
}

// seenItems: the last few job objects this queue was handed (oldest first).
func (r *recQ) seenItems() []any {
	// (a real lock, held for a few instructions with no yield inside: the edge a user queue's
	// own synchronisation would give between storing an item and looking at it elsewhere)
	r.seenMu.Lock()
	defer r.seenMu.Unlock()
	if len(r.seen) > 3 {
		return append([]any(nil), r.seen[len(r.seen)-3:]...)
	}
	return append([]any(nil), r.seen...)
}

// remember/forget map queued items to submissions without calling into the
// library (its accessors contain yield points).
func (r *recQ) remember(item any, sub int) {
	r.items = append(r.items, qItem{item, sub})
	r.seenMu.Lock()
	r.seen = append(r.seen, item)
	r.seenMu.Unlock()
	if sub >= 0 {
		if r.objs == nil {
			r.objs = map[int]any{}
		}
		r.objs[sub] = item
	}
}

func (r *recQ) forget(item any) int {
	for i, x := range r.items {
		if x.item == item {
			r.items = removeAt(r.items, i)
			return x.sub
		}
	}
	return -1
}

func (r *recQ) Len() int {
	n := r.in.Len()
	if r.recLen {
		r.lens = append(r.lens, lenObs{simrt.Step(), n, simrt.CurID(), inSelection()})
	}
	return n
}

func (r *recQ) Values() []any { return r.in.Values() }
func (r *recQ) Purge() {
	r.mu.Lock()
	r.in.Purge()
	r.items = nil
	r.wd.root.rec.qPurged(r.wd, r.qi)
	r.mu.Unlock()
}
func (r *recQ) Close() error { return r.in.Close() }

func containsStr(s, sub string) bool { return strings.Contains(s, sub) }
