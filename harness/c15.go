package varmq

// C15 — multi-queue selection follows the configured strategy and starves no
// queue (DESIGN §5 C15).  Every bound queue is observable (recording wrapper or
// simulated adapter), so the sequence "which queue did each dispatch take from"
// is exact.

import (
	"sort"

	"github.com/goptics/varmq/internal/simrt"
)

func init() {
	register(&Property{ID: "C15",
		Rule: "episodes with 2-5 queues of mixed kinds (standard, priority, persistent, persistent-priority, distributed) on one worker and strategy RoundRobin/MaxLen/MinLen; static mode: worker paused, seeded populations 0-9 per queue, then resumed with concurrency 1 (reference selector replayed on exact lengths); dynamic mode: producers keep adding while it runs (round-robin share over windows in which two queues are non-empty throughout); non-trivial = >=2 queues received jobs; distinct = hash of populations, kinds, strategy and schedule",
		Gen:   genC15,
		Judge: judgeC15,
		Owns:  []string{"C01.d", "C03.b"}, // "no queue with pending jobs is starved": at rest every bound queue has been served
		NonTrivial: func(ep *Episode) bool {
			qs := map[int]bool{}
			for _, s := range ep.W.subs {
				if s.Submitted && s.Accepted {
					qs[s.Q] = true
				}
			}
			return len(qs) >= 2
		},
	})
}

func genC15(r *simrt.Rand, tier string) (Cfg, *Program) {
	pf := baseProfile()
	pf.WKinds = []int{wkPlain, wkPlain, wkErr, wkResult} // (the adapter kinds exist for the plain worker only: generate maps them to in-memory kinds otherwise)
	pf.QKinds = []int{qkStd, qkPrio, qkPers, qkPersPrio, qkDist}
	pf.NQ = [2]int{2, 5}
	pf.WrapPct = 100
	pf.Strategy = []int{int(RoundRobin), int(MaxLen), int(MinLen)}
	static := r.Chance(60)
	if static {
		pf.Conc = []int{1}
		pf.Producers, pf.Adds = [2]int{1, 3}, [2]int{2, 9}
		pf.DelayPct = 0
	} else {
		pf.Conc = []int{1, 1, 2, 3}
		pf.Producers, pf.Adds = [2]int{2, 4}, [2]int{3, 10}
		pf.DelayPct, pf.MaxDelay = 50, 2
	}
	if r.Chance(25) {
		// a caller polling the worker-level barrier while several queues have jobs: looking
		// at the queues must not take a turn away from any of them
		pf.Waiters, pf.WaitOps = [2]int{1, 1}, [2]int{2, 5}
		pf.Wait = []wop{{opWUFw, 1}}
	}
	if !static && r.Chance(15) {
		// pauses while several queues are backlogged: a selection that was made and then
		// abandoned because of the pause must not cost the selected queue its turn
		pf.Ctrl = []wop{{opPause, 3}, {opResume, 4}, {opSettle, 1}}
		pf.CtrlOps = [2]int{2, 6}
		pf.CtrlGapPct = 40
	}
	if r.Chance(20) {
		// a queue handle is closed (often an empty, drained one): the others keep their order
		pf.Cancellers, pf.CancelOps = [2]int{1, 1}, [2]int{1, 2}
		pf.Cancel = []wop{{opCloseQueue, 1}}
		if !static && r.Chance(50) {
			// or emptied by a Purge (often of an already empty queue) and filled again: what
			// it reports as its length afterwards is what the selection goes by
			pf.Cancel = []wop{{opPurge, 1}}
			pf.CancelOps = [2]int{1, 3}
		}
	}
	c, p := generate(r, pf)
	c.StartPaused = static
	if r.Chance(35) {
		// a backend that refuses some dequeues: the refusing queue loses that turn, nothing else
		for i := range c.Queues {
			if c.Queues[i].Kind > qkPrio {
				c.Queues[i].FDeq = pick(r, []int{0, 20, 40})
			}
		}
	}
	var late []Op
	if r.Chance(30) {
		// another (empty) queue is bound while the backlog is being drained: the selection
		// among the queues that have jobs must go on as if nothing had happened
		for k := r.Intn(6); k > 0; k-- {
			late = append(late, Op{K: opYield})
		}
		late = append(late, Op{K: opBind, A: pick(r, memKinds)})
	}
	if static {
		p.Tasks = append(p.Tasks, append([]Op{{K: opSettle}, {K: opResume}}, late...))
	} else if len(late) > 0 {
		p.Tasks = append(p.Tasks, late)
	}
	if !static && len(late) == 0 && r.Chance(12) {
		// the worker is restarted while the backlog is being drained: for a moment the event
		// loop of the old run may dispatch next to the new one's, and the selections still go
		// round the queues (checkSelections)
		var ops []Op
		for i, n := 0, 1+r.Intn(2); i < n; i++ {
			for k := r.Intn(6); k > 0; k-- {
				ops = append(ops, Op{K: opYield})
			}
			ops = append(ops, Op{K: opRestart})
		}
		p.Tasks = append(p.Tasks, ops)
	} else if !static && len(late) == 0 && r.Chance(12) {
		// a queue bound while the worker is stopped (between Stop and Restart) is bound like any
		// other: after the Restart its jobs take part in the selection
		var ops []Op
		for k := r.Intn(5); k > 0; k-- {
			ops = append(ops, Op{K: opYield})
		}
		ops = append(ops, Op{K: opStop}, Op{K: opBind, A: pick(r, memKinds)}, Op{K: opRestart})
		for k := 1 + r.Intn(3); k > 0; k-- {
			n := len(p.Subs)
			q := len(c.Queues)
			p.Subs = append(p.Subs, SubT{N: n, Q: q, Batch: -1})
			ops = append(ops, Op{K: opAdd, Q: q, Subs: []int{n}})
		}
		p.Tasks = append(p.Tasks, ops)
	} else if !static && r.Chance(20) {
		// several goroutines bind further queues at the same time and submit to them: every
		// one of these queues must be served (the binding order is ambiguous then, so the
		// order clauses are not evaluated for such an episode)
		for b, nb := 0, 2+r.Intn(2); b < nb; b++ {
			var ops []Op
			for k := r.Intn(4); k > 0; k-- {
				ops = append(ops, Op{K: opYield})
			}
			ops = append(ops, Op{K: opBind, A: pick(r, memKinds)})
			for k := 1 + r.Intn(3); k > 0; k-- {
				n := len(p.Subs)
				q := len(c.Queues) + r.Intn(nb+1)
				p.Subs = append(p.Subs, SubT{N: n, Q: q, Batch: -1})
				ops = append(ops, Op{K: opAdd, Q: q, Subs: []int{n}})
			}
			p.Tasks = append(p.Tasks, ops)
		}
	}
	return c, p
}

type c15Disp struct {
	Seq  uint64
	Q    int
	Sub  int
	Task int
	Fail bool // the chosen queue refused the dequeue: the choice was made, nothing left the queue
}

func (j *judgeCtx) dispatches() []c15Disp {
	var out []c15Disp
	for _, e := range j.r.qevs {
		if e.K == 2 {
			out = append(out, c15Disp{e.Seq, e.Q, e.Sub, e.Task, false})
		}
	}
	for _, q := range j.wd.qs {
		if q.ad != nil {
			for _, c := range q.ad.calls {
				if c.Op == "deq" && c.OK {
					out = append(out, c15Disp{c.Seq, q.idx, c.Sub, c.Task, false})
				} else if c.Op == "deq" && q.cfg.FDeq > 0 {
					out = append(out, c15Disp{c.Seq, q.idx, -1, c.Task, true})
				}
			}
		}
	}
	sort.Slice(out, func(a, b int) bool { return out[a].Seq < out[b].Seq })
	return out
}

// checkSelections: RoundRobin on the selections themselves.  Every Len() the manager asks
// during a round-robin selection is recorded as such; a selection is the run of those
// observations one goroutine makes up to the first non-empty queue.  Whoever dispatches, and
// whatever becomes of the selected turn (dequeued, refused, abandoned for a pause), the next
// selection goes on cyclically from the queue selected last: every queue between the two (in
// binding order) was looked at by the later selection and found empty.  With all queues
// bound at construction (no Bind in the episode) and nothing ever unbound this is exactly
// "visits the non-empty queues cyclically in binding order".
func (j *judgeCtx) checkSelections() {
	wd := j.wd
	if Strategy(wd.cfg.Strategy) != RoundRobin {
		return
	}
	for _, c := range j.r.calls {
		if c.K == opBind {
			return
		}
	}
	type ob struct {
		lenObs
		q int
	}
	var all []ob
	for _, q := range wd.qs {
		var src []lenObs
		if q.rq != nil {
			src = q.rq.lens
		} else if q.ad != nil {
			src = q.ad.lens
		}
		for _, o := range src {
			if o.Sel {
				all = append(all, ob{o, q.idx})
			}
		}
	}
	sort.Slice(all, func(a, b int) bool { return all[a].Seq < all[b].Seq })
	nq := len(wd.qs)
	scan := map[int][]ob{}
	prev := -1
	var prevSeq uint64
	for _, o := range all {
		sc := append(scan[o.Task], o)
		if o.N == 0 {
			if len(sc) >= nq {
				sc = nil // everything was empty: no selection
			}
			scan[o.Task] = sc
			continue
		}
		scan[o.Task] = nil
		if prev >= 0 {
			for k := 1; k <= nq; k++ {
				q := (prev + k) % nq
				if q == o.q {
					break
				}
				seenEmpty := false
				for _, x := range sc {
					if x.q == q && x.N == 0 {
						seenEmpty = true
					}
				}
				if !seenEmpty {
					j.add("C15.b", o.Seq, "RoundRobin selected queue %d (selection at %d) after queue %d (selection at %d) without finding queue %d empty in between: the selections do not go round the queues in binding order", o.q, o.Seq, prev, prevSeq, q)
					return
				}
			}
		}
		prev, prevSeq = o.q, o.Seq
	}
}

func judgeC15(j *judgeCtx) {
	wd := j.wd
	if j.ep.Res.Verdict != simrt.VDone || len(wd.qs) < 2 {
		return
	}
	// binds that overlap in time: the library's binding order is not observable
	var binds []*Call
	for _, c := range j.r.calls {
		if c.K == opBind {
			binds = append(binds, c)
		}
	}
	for a := 0; a < len(binds); a++ {
		for b := a + 1; b < len(binds); b++ {
			x, y := binds[a], binds[b]
			if (x.Ret == 0 || y.Inv < x.Ret) && (y.Ret == 0 || x.Inv < y.Ret) {
				return
			}
		}
	}
	nq := len(wd.qs)
	j.checkSelections()
	disp := j.dispatches()
	// two dispatching goroutines (after a Restart the event loop of the previous run can still
	// be on its last pass, with the signal it was left when the run was stopped): the order in
	// which jobs leave the queues is not the order in which the queues were selected
	for _, d := range disp {
		if d.Task != disp[0].Task {
			return
		}
	}
	strat := Strategy(wd.cfg.Strategy)
	if wd.cfg.StartPaused {
		// static: the populations at the first Resume, then exact bookkeeping
		var resume uint64
		for _, c := range j.r.calls {
			if c.K == opResume && c.Ret != 0 && c.Err == "" && resume == 0 {
				resume = c.Inv
			}
		}
		if resume == 0 {
			return
		}
		length := make([]int, nq)
		for _, s := range wd.subs {
			if j.accepted(s) && s.Enq != 0 && s.Enq < resume {
				length[j.qOf(s).idx]++
			}
		}
		// submissions still in flight at the Resume make the lengths inexact
		for _, s := range wd.subs {
			if s.AddInv != 0 && (s.AddRet == 0 || s.AddRet > resume) {
				return
			}
		}
		prev := -1
		for _, d := range disp {
			if d.Seq < resume {
				return // dispatched while it should have been paused: C09/C14 territory
			}
			switch strat {
			case RoundRobin:
				if prev >= 0 {
					want := -1
					for k := 1; k <= nq; k++ {
						if q := (prev + k) % nq; length[q] > 0 {
							want = q
							break
						}
					}
					if want != d.Q {
						j.add("C15.a", d.Seq, "RoundRobin took a job from queue %d after queue %d; the next non-empty queue in binding order is %d (pending per queue: %v)", d.Q, prev, want, length)
						return
					}
				}
			case MaxLen:
				for q := 0; q < nq; q++ {
					if length[q] > length[d.Q] {
						j.add("C15.a", d.Seq, "MaxLen took a job from queue %d (%d pending) although queue %d had %d (pending per queue: %v)", d.Q, length[d.Q], q, length[q], length)
						return
					}
				}
			case MinLen:
				for q := 0; q < nq; q++ {
					if length[q] > 0 && length[q] < length[d.Q] {
						j.add("C15.a", d.Seq, "MinLen took a job from queue %d (%d pending) although non-empty queue %d had only %d (pending per queue: %v)", d.Q, length[d.Q], q, length[q], length)
						return
					}
				}
			}
			if length[d.Q] <= 0 {
				j.add("C15.a", d.Seq, "a job was taken from queue %d, which the reference bookkeeping says is empty (%v)", d.Q, length)
				return
			}
			if !d.Fail {
				length[d.Q]--
			}
			prev = d.Q
		}
		return
	}
	// dynamic: every choice must be justified by the lengths the selecting task itself
	// observed since its previous dispatch (C15.b)
	obsOf := func(q *qh) []lenObs {
		if q.rq != nil {
			return q.rq.lens
		}
		if q.ad != nil {
			return q.ad.lens
		}
		return nil
	}
	taskOf := map[uint64]int{} // dispatch seq -> task: the observation closest before it on that queue
	_ = taskOf
	type win struct{ lo, hi int } // min and max observed length, -1 = not observed
	lastByTask := map[int]uint64{}
	prevFromByTask := map[int]uint64{}
	prevQByTask := map[int]int{}
	for _, d := range disp {
		task := d.Task
		from := lastByTask[task]
		w := make([]win, nq)
		for q := 0; q < nq; q++ {
			w[q] = win{-1, -1}
			for _, o := range obsOf(wd.qs[q]) {
				if o.Task == task && o.Seq > from && o.Seq < d.Seq {
					if w[q].lo < 0 || o.N < w[q].lo {
						w[q].lo = o.N
					}
					if o.N > w[q].hi {
						w[q].hi = o.N
					}
				}
			}
		}
		// a Purge running inside the window changes lengths between two comparisons of one
		// selection (and turns a selected queue into an empty one): no verdict on this choice
		purged := false
		for _, c := range j.r.calls {
			if c.K == opPurge && c.Inv < d.Seq && (c.Ret == 0 || c.Ret > from) {
				purged = true
			}
		}
		if purged {
			prevFromByTask[task] = from
			lastByTask[task] = d.Seq
			prevQByTask[task] = d.Q
			continue
		}
		switch strat {
		case MaxLen:
			for q := 0; q < nq; q++ {
				if q != d.Q && w[q].lo >= 0 && w[d.Q].hi >= 0 && w[q].lo > w[d.Q].hi {
					j.add("C15.b", d.Seq, "MaxLen took a job from queue %d although every length it observed for queue %d (>= %d) exceeded every length it observed for queue %d (<= %d)", d.Q, q, w[q].lo, d.Q, w[d.Q].hi)
					return
				}
			}
		case MinLen:
			for q := 0; q < nq; q++ {
				if q != d.Q && w[q].lo > 0 && w[d.Q].lo >= 0 && w[q].hi < w[d.Q].lo {
					j.add("C15.b", d.Seq, "MinLen took a job from queue %d (observed >= %d) although non-empty queue %d was observed with at most %d", d.Q, w[d.Q].lo, q, w[q].hi)
					return
				}
			}
		case RoundRobin:
			if prev, ok := prevQByTask[task]; ok {
				for k := 1; k < nq; k++ {
					q := (prev + k) % nq
					if q == d.Q {
						break
					}
					// a skipped queue must have been seen empty at least once (a queue bound
					// after this task's previous selection has no defined place in that cycle
					// yet; that selection was made somewhere between the two dequeues before
					// this one)
					if w[q].lo > 0 && (q < len(wd.cfg.Queues) || wd.qs[q].boundRet < prevFromByTask[task]) {
						j.add("C15.b", d.Seq, "RoundRobin went from queue %d to queue %d, skipping queue %d, which it only ever observed non-empty (>= %d) in between", prev, d.Q, q, w[q].lo)
						return
					}
				}
			}
		}
		prevFromByTask[task] = from
		lastByTask[task] = d.Seq
		prevQByTask[task] = d.Q
	}
	// RoundRobin: equal share while two queues are both non-empty throughout
	if strat != RoundRobin {
		return
	}
	for _, c := range j.r.calls {
		if c.K == opPurge {
			return
		}
	}
	// content of every queue over time: +1 at the enqueue record, -1 at the dequeue record
	type ev struct {
		seq  uint64
		q    int
		d    int
		turn bool // a selection of this queue (successful or refused dequeue)
	}
	var evs []ev
	for _, s := range wd.subs {
		if j.accepted(s) && s.Enq != 0 {
			evs = append(evs, ev{s.Enq, j.qOf(s).idx, +1, false})
		}
	}
	for _, d := range disp {
		if !d.Fail {
			evs = append(evs, ev{d.Seq, d.Q, -1, true})
		} else {
			evs = append(evs, ev{d.Seq, d.Q, 0, true}) // the queue had its turn and refused
		}
	}
	for _, s := range wd.subs {
		if s.Purged != 0 {
			evs = append(evs, ev{s.Purged, j.qOf(s).idx, -1, false})
		}
	}
	sort.Slice(evs, func(a, b int) bool { return evs[a].seq < evs[b].seq })
	for a := 0; a < nq; a++ {
		for b := a + 1; b < nq; b++ {
			// scan windows in which both a and b are non-empty; count dispatches of each inside
			ca, cb := 0, 0
			na, nb := 0, 0
			var start uint64
			in := false
			for _, e := range evs {
				if in && e.turn {
					if e.q == a {
						na++
					}
					if e.q == b {
						nb++
					}
					if na-nb > 1 || nb-na > 1 {
						// the dequeue record follows the dispatcher's selection by a few steps and an
						// enqueue record follows the real enqueue: allow one more before reporting
						if na-nb > 2 || nb-na > 2 {
							j.add("C15.c", e.seq, "RoundRobin: while queues %d and %d were both non-empty (since %d) they were selected %d and %d times", a, b, start, na, nb)
							return
						}
					}
				}
				if e.q == a {
					ca += e.d
				}
				if e.q == b {
					cb += e.d
				}
				both := ca > 0 && cb > 0
				if both && !in {
					in, start, na, nb = true, e.seq, 0, 0
				} else if !both {
					in = false
				}
			}
		}
	}
}
