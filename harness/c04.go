package varmq

// C04 — dispatch order: FIFO per queue; lowest priority number first, ties
// FIFO (DESIGN §5 C04).  Layer Q drives the real internal queue types with
// concurrent simulated clients and checks the recorded history with porcupine
// against a sequential model (plus long sequential runs across the real segment
// sizes); layer W goes through the worker with a recording wrapper.

import (
	"os"
	"encoding/json"
	"fmt"
	"sort"
	"strconv"
	"strings"
	"time"

	"github.com/anishathalye/porcupine"
	"github.com/goptics/varmq/internal/queues"
	"github.com/goptics/varmq/internal/simrt"
)

const (
	qoEnq = iota
	qoDeq
	qoPurge
	qoValues
	qoLen
)

type qIn struct {
	Op   int
	V    int
	Prio int
}

type qOut struct {
	V    int
	OK   bool
	N    int
	Vals []int
}

type qOp struct {
	Client   int
	In       qIn
	Out      qOut
	Call     uint64
	Ret      uint64
	Finished bool
}

// model state: "arrivalCounter|v:prio:arr;v:prio:arr;..." in arrival order
type qItemM struct{ v, prio, arr int }

func qDecode(s string) (int, []qItemM) {
	parts := strings.SplitN(s, "|", 2)
	n, _ := strconv.Atoi(parts[0])
	var items []qItemM
	if len(parts) > 1 && parts[1] != "" {
		for _, f := range strings.Split(strings.TrimSuffix(parts[1], ";"), ";") {
			x := strings.Split(f, ":")
			v, _ := strconv.Atoi(x[0])
			p, _ := strconv.Atoi(x[1])
			a, _ := strconv.Atoi(x[2])
			items = append(items, qItemM{v, p, a})
		}
	}
	return n, items
}

func qEncode(n int, items []qItemM) string {
	var sb strings.Builder
	sb.WriteString(strconv.Itoa(n))
	sb.WriteString("|")
	for _, it := range items {
		fmt.Fprintf(&sb, "%d:%d:%d;", it.v, it.prio, it.arr)
	}
	return sb.String()
}

// qModel is the sequential specification: FIFO, or (priority, arrival) order.
func qModel(prio bool) porcupine.Model {
	return porcupine.Model{
		Init: func() interface{} { return "0|" },
		Step: func(state, input, output interface{}) (bool, interface{}) {
			n, items := qDecode(state.(string))
			in, out := input.(qIn), output.(qOut)
			switch in.Op {
			case qoEnq:
				if !out.OK {
					return false, state
				}
				items = append(items, qItemM{in.V, in.Prio, n})
				return true, qEncode(n+1, items)
			case qoDeq:
				if len(items) == 0 {
					return !out.OK, state
				}
				h := 0
				if prio {
					for i, it := range items {
						if it.prio < items[h].prio || (it.prio == items[h].prio && it.arr < items[h].arr) {
							h = i
						}
					}
				}
				if !out.OK || out.V != items[h].v {
					return false, state
				}
				rest := append(append([]qItemM(nil), items[:h]...), items[h+1:]...)
				return true, qEncode(n, rest)
			case qoPurge:
				return true, qEncode(n, nil)
			case qoLen:
				return out.N == len(items), state
			case qoValues:
				if len(out.Vals) != len(items) {
					return false, state
				}
				a := append([]int(nil), out.Vals...)
				var b []int
				for _, it := range items {
					b = append(b, it.v)
				}
				sort.Ints(a)
				sort.Ints(b)
				for i := range a {
					if a[i] != b[i] {
						return false, state
					}
				}
				return true, state
			}
			return false, state
		},
	}
}

type rawQ interface {
	Len() int
	Dequeue() (any, bool)
	Values() []any
	Purge()
}

type qClient struct {
	ops  []qIn
	id   int
	fifo *queues.Queue[int]
	heap *queues.PriorityQueue[int]
	log  *[]*qOp
}

func (c *qClient) run() {
	var q rawQ = c.fifo
	if c.heap != nil {
		q = c.heap
	}
	for _, in := range c.ops {
		op := &qOp{Client: c.id, In: in, Call: simrt.Stamp()}
		*c.log = append(*c.log, op)
		switch in.Op {
		case qoEnq:
			if c.heap != nil {
				op.Out.OK = c.heap.Enqueue(in.V, in.Prio)
			} else {
				op.Out.OK = c.fifo.Enqueue(in.V)
			}
		case qoDeq:
			v, ok := q.Dequeue()
			op.Out.OK = ok
			if ok {
				op.Out.V = v.(int)
			}
		case qoPurge:
			q.Purge()
		case qoLen:
			op.Out.N = q.Len()
		case qoValues:
			for _, v := range q.Values() {
				op.Out.Vals = append(op.Out.Vals, v.(int))
			}
		}
		op.Ret = simrt.Stamp()
		op.Finished = true
	}
}

type c04Result struct {
	Verdict   simrt.Verdict
	Msg       string
	Ops       []*qOp
	Prio      bool
	Seq       bool
	Steps     uint64
	Finger    uint64
	LibSw     uint64
	Crossings int
}

// c04LayerQ runs one raw-queue episode (a pure function of the seed).
func c04LayerQ(seed uint64, tier string) *c04Result { return layerQ(seed, tier, false) }

// layerQ: lenHeavy shifts the mix towards Len and Purge (C17 uses it for the bounds of Len).
func layerQ(seed uint64, tier string, lenHeavy bool) *c04Result {
	r := simrt.NewRand(seed)
	res := &c04Result{Prio: r.Chance(50)}
	pf := baseProfile()
	var cfg Cfg
	simParams(r, &cfg, pf)
	cfg.MaxSteps = 3000000
	res.Seq = r.Chance(25)
	nclients := 2 + r.Intn(3)
	nops := 40
	init, max := 2+r.Intn(4), 0
	max = init + r.Intn(6)
	if res.Seq {
		nclients = 1
		nops = 600 + r.Intn(1500)
		if r.Chance(50) {
			// the real segment sizes: 1024, then x1.5 ... (and a small cap to exercise the max-capacity branch)
			init, max = 1024, pick(r, []int{100 * 1024, 1536, 2000})
			nops = 2500 + r.Intn(2500)
		}
	}
	var scripts [][]qIn
	next := 1
	per := nops / nclients
	for c := 0; c < nclients; c++ {
		var ops []qIn
		for i := 0; i < per; i++ {
			x := r.Intn(100)
			if lenHeavy {
				// 40 % enqueue, 25 % dequeue, 10 % purge, 25 % len
				switch {
				case x < 40:
					x = 0
				case x < 65:
					x = 70
				case x < 75:
					x = 89
				default:
					x = 99
				}
			}
			switch {
			case x < 55 || (res.Seq && x < 62):
				ops = append(ops, qIn{Op: qoEnq, V: next, Prio: pick(r, prioVals)})
				next++
			case x < 88:
				ops = append(ops, qIn{Op: qoDeq})
			case x < 91:
				ops = append(ops, qIn{Op: qoPurge})
			case x < 95:
				ops = append(ops, qIn{Op: qoValues})
			default:
				ops = append(ops, qIn{Op: qoLen})
			}
		}
		if res.Seq && r.Chance(50) {
			// ... and then the backlog is drained to the last item (a burst that is worked off:
			// whatever the queue does when it shrinks must not bring an item back)
			for i := 0; i < per; i++ {
				ops = append(ops, qIn{Op: qoDeq})
				if i%7 == 0 {
					ops = append(ops, qIn{Op: qoLen})
				}
			}
		}
		scripts = append(scripts, ops)
	}
	var log []*qOp
	oi, om := queues.VerifSetCaps(init, max)
	sim := simrt.New(simOptions(cfg, seed, numSites, nil, false))
	out := sim.Run(func() {
		var fifo *queues.Queue[int]
		var heap *queues.PriorityQueue[int]
		if res.Prio {
			heap = queues.NewPriorityQueue[int]()
		} else {
			fifo = queues.NewQueue[int]()
		}
		for i, ops := range scripts {
			c := &qClient{ops: ops, id: i, fifo: fifo, heap: heap, log: &log}
			simrt.GoHarness("qclient", c.run)
		}
		simrt.WaitQuiescent()
		_, _, res.LibSw, _, _, res.Finger = simrt.Stats()
		simrt.Finish()
	})
	queues.VerifSetCaps(oi, om)
	res.Verdict, res.Msg, res.Ops, res.Steps = out.Verdict, out.Msg, log, out.Steps
	return res
}

// c04Check judges a layer-Q history; returns (clause, message) or "".
func c04Check(res *c04Result) (string, string, bool) {
	if res.Verdict == simrt.VCrash {
		return "crash", res.Msg, false
	}
	if res.Verdict != simrt.VDone {
		return "C04.a", "raw queue clients did not finish: " + res.Verdict.String() + " " + res.Msg, false
	}
	model := qModel(res.Prio)
	if res.Seq {
		// sequential: replay the model directly
		st := model.Init()
		for i, op := range res.Ops {
			ok, ns := model.Step(st, op.In, op.Out)
			if !ok {
				return "C04.b", fmt.Sprintf("sequential run, operation %d (%+v) returned %+v which the (priority=%v) model does not allow; model state had %d items", i, op.In, op.Out, res.Prio, strings.Count(st.(string), ";")), false
			}
			st = ns
		}
		return "", "", false
	}
	var h []porcupine.Operation
	for _, op := range res.Ops {
		if !op.Finished {
			continue
		}
		h = append(h, porcupine.Operation{ClientId: op.Client, Input: op.In, Output: op.Out, Call: int64(op.Call), Return: int64(op.Ret)})
	}
	switch porcupine.CheckOperationsTimeout(model, h, 5*time.Second) {
	case porcupine.Illegal:
		var sb strings.Builder
		for _, op := range res.Ops {
			fmt.Fprintf(&sb, "[c%d %d..%d %+v -> %+v] ", op.Client, op.Call, op.Ret, op.In, op.Out)
		}
		return "C04.a", "history of the raw queue is not linearizable against the sequential (priority=" + strconv.FormatBool(res.Prio) + ") model: " + sb.String(), false
	case porcupine.Unknown:
		return "", "", true
	}
	return "", "", false
}

// c04Pre is layer Q: it takes the first 45% of the time budget.
func c04Pre(p *Property, sum *Summary, fingers map[uint64]bool, deadline time.Time, budget time.Duration) bool {
	end := time.Now().Add(budget * 45 / 100)
	for i := 0; time.Now().Before(end); i++ {
		seed := mix(*fSeed^0xc04, uint64(*fShard), uint64(i))
		res := c04LayerQ(seed, *fTier)
		sum.Episodes++
		sum.Steps += res.Steps
		sum.Verdicts[res.Verdict.String()]++
		sum.Extra["layerQ_episodes"]++
		if res.Seq {
			sum.Extra["layerQ_sequential_long_runs"]++
		}
		if res.LibSw > 0 || res.Seq {
			sum.NonTrivial++
			fingers[res.Finger^seed] = true
		}
		clause, msg, unknown := c04Check(res)
		if unknown {
			sum.Extra["porcupine_unknown"]++
		} else if !res.Seq {
			sum.Extra["porcupine_histories_checked"]++
		}
		if len(sum.Samples) < 1 && !res.Seq && len(res.Ops) > 4 {
			var ops []string
			for _, op := range res.Ops[:min(len(res.Ops), 14)] {
				ops = append(ops, fmt.Sprintf("c%d[%d..%d] %+v->%+v", op.Client, op.Call, op.Ret, op.In, op.Out))
			}
			b, _ := json.Marshal(map[string]any{"layer": "Q (raw queue, porcupine)", "seed": seed, "priority_queue": res.Prio, "history_prefix": ops})
			sum.Samples = append(sum.Samples, b)
		}
		if clause == "" {
			continue
		}
		// deterministic re-run
		res2 := c04LayerQ(seed, *fTier)
		c2, _, _ := c04Check(res2)
		if c2 != clause {
			sum.Infra = fmt.Sprintf("C04 layer Q violation %s of seed %d did not reproduce (got %q)", clause, seed, c2)
			return true
		}
		rf := &ReplayFile{Property: p.ID, Clause: clause, Msg: msg, Seed: seed, Steps: res.Steps, Trace: []string{"layer Q (raw queue type)", msg}}
		rf.Cfg.Prop = "C04Q"
		path := fmt.Sprintf("%s/%s-%s-%d.json", *fRepDir, p.ID, strings.ReplaceAll(clause, ".", "_"), seed)
		writeJSON(path, rf)
		sum.Viols = append(sum.Viols, ViolOut{Clause: clause, Msg: msg, Seed: seed, Replay: path})
		return true
	}
	return false
}

func init() {
	register(&Property{ID: "C04",
		Rule: "layer Q: 2-4 simulated clients on one real Queue/PriorityQueue (segment capacities 2-8) issuing enqueue/dequeue/purge/values/len with unique values and priorities from {MinInt.., -2..2, ..MaxInt} (many ties), history <= 40 ops checked with porcupine against a sequential model, plus sequential runs of up to 5000 ops across the real segment sizes (1024, 1536, cap); layer W: concurrent producers through a recording wrapper on a worker (model replay of the wrapper log, start order with concurrency 1, every dequeued job started at gated quiescence); non-trivial = >=1 library context switch (Q) / >=2 accepted jobs (W); distinct = schedule/program hash",
		Pre: c04Pre,
		Gen: func(r *simrt.Rand, tier string) (Cfg, *Program) {
			pf := baseProfile()
			pf.QKinds = []int{qkStd, qkPrio}
			pf.WrapPct = 100
			pf.Conc = []int{1, 1, 2, 3}
			pf.Producers, pf.Adds = [2]int{1, 4}, [2]int{2, 9}
			pf.PrioPct = 90
			pf.BatchPct, pf.BatchMax = 15, pick(r, []int{5, 5, 5, 16, 40})
			pf.GatedPct, pf.DelayPct = pick(r, []int{0, 50}), 20
			pf.Cancellers, pf.CancelOps = [2]int{0, 1}, [2]int{1, 2}
			pf.Cancel = []wop{{opPurge, 2}, {opCloseJob, 3}, {opCloseQueue, 1}}
			pf.Ctrl = []wop{{opPause, 2}, {opResume, 2}, {opSettle, 2}}
			pf.CtrlOps = [2]int{0, 3}
			pf.Releaser = 100
			if r.Chance(15) {
				// external backend with slow acknowledgements: a dequeued job must still be
				// started while another goroutine is busy acknowledging (C04.e)
				pf.WKinds = []int{wkPlain}
				pf.QKinds = []int{qkPers, qkPersPrio}
				pf.Conc = []int{2, 3, 4}
				pf.AckStall = []int{30, 60}
				pf.BatchPct = 0
				pf.Ratio = []int{0, 50, 100}
				if r.Chance(40) {
					// ... or one that hands some deliveries out without an acknowledgement id:
					// they are jobs like the others and keep their place (one at a time here, so
					// that the start order is the dispatch order)
					pf.Conc = []int{1}
					pf.AckStall = nil
					pf.NoAckID = []int{30, 60}
				}
			}
			huge := 0
			hn := map[bool]int{false: 600, true: 300}[tier == "thorough"]
			if os.Getenv("VERIF_BIGBATCH") != "" { // development aid: every episode
				hn = 1
			}
			if r.Intn(hn) == 0 {
				// one batch larger than any chunk/threshold constant (1024, 2048, 4096), then single
				// submissions made after AddAll has returned: they must queue up behind the whole batch
				huge = pick(r, []int{1030, 2060, 4100, 4200})
				pf.WKinds = allW
				pf.QKinds = []int{qkStd, qkPrio}
				pf.Conc = []int{1, 1, 2}
				pf.Producers, pf.Adds = [2]int{1, 1}, [2]int{2, 4}
				pf.BatchPct, pf.GatedPct, pf.DelayPct = 0, 0, 0
				pf.Cancellers, pf.Ctrl, pf.CtrlOps = [2]int{0, 0}, nil, [2]int{0, 0}
				pf.Releaser = 0
				pf.SmallChunksPct = 30
			}
			c, p := generate(r, pf)
			if huge > 0 && len(p.Tasks) > 0 {
				b := p.NBatches
				p.NBatches++
				var subs []int
				for i := 0; i < huge; i++ {
					n := len(p.Subs)
					st := SubT{N: n, Q: 0, Batch: b}
					if r.Chance(50) {
						st.Prio = pick(r, []int{0, 0, 1, 2})
					}
					p.Subs = append(p.Subs, st)
					subs = append(subs, n)
				}
				p.Tasks[0] = append([]Op{{K: opAddAll, Q: 0, A: b, Subs: subs}}, p.Tasks[0]...)
				if m := 60000 + 6000*len(p.Subs); m > c.MaxSteps {
					c.MaxSteps = m
				}
			}
			return c, p
		},
		Judge:      judgeC04W,
		NonTrivial: func(ep *Episode) bool { return countAccepted(ep) >= 2 },
	})
}

// judgeC04W: the wrapper's records are atomic with the inner operations, so the
// record order is the order in which the queue saw them: replay it on the model.
func judgeC04W(j *judgeCtx) {
	wd := j.wd
	if len(wd.qs) != 1 {
		return
	}
	if wd.qs[0].rq == nil {
		// adapter queue: no wrapper log to replay; dequeues are recorded by the adapter
		j.checkStartedPrefix()
		return
	}
	prio := wd.qs[0].cfg.Kind == qkPrio
	type it struct{ sub, prio, arr int }
	var content []it
	arr := 0
	for _, e := range j.r.qevs {
		switch e.K {
		case 0:
			p := 0
			if e.Sub >= 0 {
				p = wd.subs[e.Sub].Prio
			}
			content = append(content, it{e.Sub, p, arr})
			arr++
		case 2, 3:
			if e.K == 3 {
				// purge removals (drained one by one or wholesale): any order
				for i, c := range content {
					if c.sub == e.Sub {
						content = append(content[:i:i], content[i+1:]...)
						break
					}
				}
				continue
			}
			if e.Sub >= 0 && e.Sub < len(wd.subs) {
				if s := wd.subs[e.Sub]; s.AddOK == 2 {
					j.add("C04.h", e.Seq, "job %d was handed out at %d, but its submission was reported refused (Add returned false at %d): the dispatch sequence contains a job that was never accepted", e.Sub, e.Seq, s.AddRet)
				}
			}
			if len(content) == 0 {
				j.add("C04.c", e.Seq, "job %d was dequeued from a queue the model says is empty", e.Sub)
				return
			}
			h := 0
			if prio {
				for i, c := range content {
					if c.prio < content[h].prio || (c.prio == content[h].prio && c.arr < content[h].arr) {
						h = i
					}
				}
			}
			if content[h].sub != e.Sub {
				j.add("C04.c", e.Seq, "job %d was handed out, but the %s order says job %d (priority %d, arrival %d) comes first", e.Sub, map[bool]string{false: "FIFO", true: "priority"}[prio], content[h].sub, content[h].prio, content[h].arr)
				return
			}
			content = append(content[:h:h], content[h+1:]...)
		}
	}
	j.checkEntryOrder("C04.d")
	// C04.g: real-time precedence — a submission whose call returned before another one was
	// invoked reaches the queue first (all submissions on a FIFO queue, equal priorities on a
	// priority queue; the items of an AddAll carry the call's interval)
	{
		type sb struct {
			inv, ret, enq uint64
			n, prio    int
		}
		var xs []sb
		for _, s := range wd.subs {
			if j.accepted(s) && s.Enq != 0 && s.AddInv != 0 && s.AddRet != 0 {
				pr := 0
				if prio {
					pr = s.Prio
				}
				xs = append(xs, sb{s.AddInv, s.AddRet, s.Enq, s.N, pr})
			}
		}
		byInv := append([]sb(nil), xs...)
		sort.Slice(byInv, func(a, b int) bool { return byInv[a].inv < byInv[b].inv })
		byRet := append([]sb(nil), xs...)
		sort.Slice(byRet, func(a, b int) bool { return byRet[a].ret < byRet[b].ret })
		maxEnq := map[int]sb{} // per priority class: the latest-enqueued submission among those already returned
		k := 0
		for _, b := range byInv {
			for k < len(byRet) && byRet[k].ret < b.inv {
				if m, ok := maxEnq[byRet[k].prio]; !ok || byRet[k].enq > m.enq {
					maxEnq[byRet[k].prio] = byRet[k]
				}
				k++
			}
			if a, ok := maxEnq[b.prio]; ok && a.enq > b.enq {
				j.add("C04.g", b.enq, "submission %d (call [%d,%d]) reached the queue at %d, before submission %d at %d whose call had returned at %d, before this one was invoked: real-time order of non-overlapping submissions is not respected", b.n, b.inv, b.ret, b.enq, a.n, a.enq, a.ret)
				return
			}
		}
	}
	// C04.f: the items of one AddAll reach the queue in slice order — "accepted first"
	// inside a batch is the item order (all items on a FIFO queue, equal priorities on a
	// priority queue)
	for _, b := range wd.batches {
		if b == nil {
			continue
		}
		lastOf := map[int]*Sub{}
		for _, x := range b.subs {
			s := wd.subs[x]
			if s.Enq == 0 {
				continue
			}
			k := 0
			if prio {
				k = s.Prio
			}
			if l := lastOf[k]; l != nil && s.Enq < l.Enq {
				j.add("C04.f", s.Enq, "batch %d: item %d (priority %d) reached the queue at %d, before item %d of the same priority at %d, which precedes it in the batch", b.idx, s.N, s.Prio, s.Enq, l.N, l.Enq)
				return
			}
			lastOf[k] = s
		}
	}
	j.checkStartedPrefix()
}

// checkStartedPrefix — C04.e: at every gated quiescence every dequeued, non-cancelled job has started
func (j *judgeCtx) checkStartedPrefix() {
	wd := j.wd
	for _, c := range j.r.calls {
		if c.K != opSettle || c.Phase != 0 {
			continue
		}
		if st := j.stateAt(c.Inv); st != lsR {
			continue
		}
		for _, s := range wd.subs {
			started := false
			for _, e := range s.Entries {
				if e > s.Deq && e <= c.Inv {
					started = true
				}
			}
			if s.Deq != 0 && s.Deq < c.Inv && !started && j.firstCloseOK(s) == nil {
				j.add("C04.e", c.Inv, "job %d was dequeued at %d but has not started at the quiescent point %d: the set of started jobs is not a prefix of the dispatch order", s.N, s.Deq, c.Inv)
				return
			}
		}
	}
}
