package varmq

// C19: the same simulator, compiled with -race.  The hand-off between tasks is
// invisible to the detector (simrt, §2.2), so the happens-before relation it
// sees is that of the program's own synchronisation.  After each episode the
// detector's log is inspected for new reports; a report counts when the racing
// accesses of BOTH stacks are in library code (first /repo frame that is neither
// the harness nor simrt).

import (
	"fmt"
	"os"
	"regexp"
	"sort"
	"strings"

	"github.com/goptics/varmq/internal/simrt"
)

type raceReport struct {
	Sig    string
	Text   string
	Lib    [2]bool
	Frames [2]string
}

var raceLogPos int64
var raceLogEnd int64 = -1

// raceFence notes how far the detector's log had grown when the episode ended:
// whatever dying goroutines trigger afterwards (deferred calls racing each
// other on a dead world) is not part of any episode.
func raceFence() {
	raceLogEnd = -1
	if p := raceLogPath(); p != "" {
		if fi, err := os.Stat(p); err == nil {
			raceLogEnd = fi.Size()
		}
	}
}

func raceLogPath() string {
	if *fRaceLog == "" {
		return ""
	}
	return fmt.Sprintf("%s.%d", *fRaceLog, os.Getpid())
}

// a frame is "  <function>()" followed by "      <file>:<line> +0x..": function
// names of generic instantiations contain spaces
var reFrame = regexp.MustCompile(`(?m)^  (.+)\(\)\n\s+(\S+?):(\d+)`)

// firstRepoFrame returns the function of the first frame whose file is under
// /repo/ and whether it is library code.
func firstRepoFrame(stack string) (string, bool) { return repoFrame(stack, false) }

func repoFrame(stack string, skipSimrt bool) (string, bool) {
	for _, m := range reFrame.FindAllStringSubmatch(stack, -1) {
		fn, file := m[1], m[2]
		if !strings.HasPrefix(file, *fRepo+"/") {
			continue
		}
		if skipSimrt && strings.Contains(file, "/internal/simrt/") {
			continue
		}
		if strings.Contains(file, "/internal/simrt/") && (strings.HasSuffix(fn, "simrt.raceRead") || strings.HasSuffix(fn, "simrt.raceWrite") || strings.Contains(fn, "simrt.(*WaitGroup).")) {
			// the replayed race annotations of sync.WaitGroup (simrt/sync.go): the
			// access belongs to the caller, as it does with the real WaitGroup
			continue
		}
		lib := !strings.Contains(file, "zz_verif_") && !strings.Contains(file, "/internal/simrt/")
		return fn, lib
	}
	return "", false
}

var reAnnot = regexp.MustCompile(`^[^\n]*\n  runtime\.race(read|write)\(\)`)
var reByG = regexp.MustCompile(`by goroutine (\d+):`)

var reShape = regexp.MustCompile(`\[[^\]]*\]`)

func normFunc(f string) string {
	f = reShape.ReplaceAllString(f, "")
	f = strings.TrimPrefix(f, "github.com/goptics/varmq")
	return strings.TrimPrefix(f, "/")
}

// newRaceReports parses what the detector wrote since the last call.
func newRaceReports() []raceReport {
	p := raceLogPath()
	if p == "" {
		return nil
	}
	b, err := os.ReadFile(p)
	if err != nil {
		return nil
	}
	end := int64(len(b))
	if raceLogEnd >= 0 && raceLogEnd < end {
		end = raceLogEnd
	}
	start := raceLogPos
	raceLogPos = int64(len(b)) // death-phase output is skipped
	if end <= start {
		return nil
	}
	txt := string(b[start:end])
	var out []raceReport
	for _, rep := range strings.Split(txt, "==================") {
		if !strings.Contains(rep, "DATA RACE") {
			continue
		}
		parts := strings.Split(rep, "\n\n")
		var acc []string
		for _, blk := range parts {
			t := strings.TrimSpace(blk)
			if strings.HasPrefix(t, "Write at") || strings.HasPrefix(t, "Read at") || strings.HasPrefix(t, "Previous write at") || strings.HasPrefix(t, "Previous read at") ||
				strings.HasPrefix(t, "Atomic") || strings.HasPrefix(t, "Previous atomic") || strings.HasPrefix(t, "WARNING: DATA RACE") {
				// the header line of the report is glued to the first access block
				if i := strings.Index(t, "Write at"); i >= 0 && strings.HasPrefix(t, "WARNING") {
					t = t[i:]
				} else if i := strings.Index(t, "Read at"); i >= 0 && strings.HasPrefix(t, "WARNING") {
					t = t[i:]
				}
				acc = append(acc, t)
			}
		}
		if len(acc) < 2 {
			continue
		}
		var r raceReport
		r.Text = strings.TrimSpace(rep)
		var fs []string
		for i := 0; i < 2; i++ {
			fn, lib := firstRepoFrame(acc[i] + "\n")
			if !lib && reAnnot.MatchString(acc[i]) && (fn == "" || strings.Contains(fn, "/internal/simrt.")) {
				// replayed WaitGroup annotation (simrt/sync.go) whose stack the
				// detector could not restore beyond the task's entry point: the
				// goroutine is the library's if library code started it
				if m := reByG.FindStringSubmatch(acc[i]); m != nil {
					for _, blk := range parts {
						t := strings.TrimSpace(blk)
						if strings.HasPrefix(t, "Goroutine "+m[1]+" ") {
							fn, lib = repoFrame(t+"\n", true)
							fn = "goroutine started by " + fn
						}
					}
				}
			}
			kind := strings.Fields(acc[i])[0]
			if strings.HasPrefix(acc[i], "Previous") {
				kind = strings.Fields(acc[i])[1]
			}
			r.Lib[i] = lib
			r.Frames[i] = strings.ToLower(kind) + " in " + normFunc(fn)
			fs = append(fs, r.Frames[i])
		}
		sort.Strings(fs)
		r.Sig = strings.Join(fs, " <-> ")
		out = append(out, r)
	}
	return out
}

// judgeRaces turns the reports produced by this episode into C19 violations.
func judgeRaces(ep *Episode) {
	for _, r := range newRaceReports() {
		if r.Lib[0] && r.Lib[1] {
			ep.Viols = append([]Viol{{Clause: "C19.a", Seq: 0, Msg: "data race: " + r.Sig}}, ep.Viols...)
			ep.RaceTexts = append(ep.RaceTexts, r.Text)
		} else {
			ep.HarnessRaces++
		}
	}
}

var _ = simrt.Active
