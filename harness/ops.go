package varmq

// Client programs (DESIGN §4.1): a program is a list of task scripts, each a
// list of ops; submissions are numbered statically so that deleting ops during
// minimisation never renumbers anything.

import (
	"time"

	"github.com/goptics/varmq/internal/simrt"
)

const (
	opAdd = iota
	opAddAll
	opCloseJob
	opPurge
	opCloseQueue
	opWait
	opResult // Result() on result workers, Err() on err workers, Wait() on plain ones
	opDrain
	opStatus
	opBatchWait
	opBatchRead
	opBatchPending
	opPause
	opPauseAndWait
	opResume
	opStop
	opWaitAndStop
	opRestart
	opTune
	opWUF
	opBind
	opCancelCtx
	opOpenGate
	opSettle
	opAdvance
	opSample
	opQueuePending
	opYield
	opCrash
	opSpawn   // bind a further consumer worker to the shared adapter (C13)
	opAddBare // submit through a bare NewDistributedQueue producer ("another process")
	opIntro   // every introspection call of the Worker interface (C19 API fuzz)
	opWarmDone  // end of the warm-up task: releases every task parked in AwaitWarm at once
	opAwaitWarm // park until the warm-up task is through (no-op without one)
	opInject    // another writer puts an undecodable entry into the backend of an adapter queue
	opBatchDrain // Drain() on a batch handle of an error / result worker (fire and forget)
	nOps
)

var opNames = [nOps]string{"Add", "AddAll", "CloseJob", "Purge", "CloseQueue", "Wait", "Result", "Drain", "Status", "BatchWait", "BatchRead", "BatchPending", "Pause", "PauseAndWait", "Resume", "Stop", "WaitAndStop", "Restart", "TunePool", "WaitUntilFinished", "Bind", "CancelCtx", "OpenGate", "Settle", "Advance", "Sample", "QueuePending", "Yield", "Crash", "SpawnConsumer", "AddBare", "Introspect", "WarmDone", "AwaitWarm", "InjectBadEntry", "BatchDrain"}

// Op: K kind; Q queue index; A argument (sub number, batch number, tune value,
// time units, bind kind); Subs: submission numbers of an Add/AddAll.
type Op struct {
	K    int   `json:"k"`
	Q    int   `json:"q,omitempty"`
	A    int   `json:"a,omitempty"`
	Subs []int `json:"subs,omitempty"`
}

type Program struct {
	Tasks    [][]Op `json:"tasks"`
	Subs     []SubT `json:"subs"`
	NBatches int    `json:"nbatches"`
}

func isLifecycle(k int) bool {
	switch k {
	case opPause, opPauseAndWait, opResume, opStop, opWaitAndStop, opRestart, opBind, opCancelCtx:
		return true
	}
	return false
}

// scriptTask runs one script.
type scriptTask struct {
	wd  *World
	idx int
	ops []Op
	done bool
}

func (st *scriptTask) run() {
	for _, op := range st.ops {
		st.wd.runOp(op)
	}
	st.done = true
}

type handleReady struct{ s *Sub }

func (h handleReady) ok() bool { return h.s.Submitted }

type batchReady struct {
	wd *World
	b  int
}

func (b batchReady) ok() bool { return b.wd.batches[b.b] != nil }

func (wd *World) subByN(n int) *Sub {
	if n < 0 || n >= len(wd.subs) {
		return nil
	}
	return wd.subs[n]
}

func (wd *World) queue(i int) *qh {
	if len(wd.qs) == 0 {
		return nil
	}
	if i < 0 {
		i = -i
	}
	q := wd.qs[i%len(wd.qs)]
	q.hb.Lock()
	q.hb.Unlock()
	return q
}

// settledAfterBarrier: a worker-level barrier that returned nil saw nothing in flight, and a
// job leaves the in-flight count only after it was closed (status Closed, waiters released).
// Right after the barrier returned, the handle of every job whose function had returned by
// then must therefore read Closed; the ones that do not are noted on the call (Extra).
func (wd *World) settledAfterBarrier(c *Call) {
	if c.Err != "" || wd != wd.root {
		return
	}
	for _, s := range wd.subs {
		// (only jobs whose function had been entered before the call: the barrier takes its
		// decision - nothing in flight - somewhere between its invocation and its return; a job
		// in flight before that moment has left the count, closed, by then; one that starts
		// after it, e.g. when somebody resumes a paused worker, may be anywhere at the return)
		if s.h == nil || s.h.ej == nil || len(s.Exits) == 0 || s.Exits[len(s.Exits)-1] > c.Ret || len(s.Entries) == 0 || s.Entries[len(s.Entries)-1] >= c.Inv {
			continue
		}
		s.acquire()
		if !s.h.ej.IsClosed() {
			c.Extra = append(c.Extra, s.N)
		}
	}
}

func (wd *World) runOp(op Op) {
	r := wd.rec
	w := wd.w
	switch op.K {
	case opAdd:
		s := wd.subByN(op.Subs[0])
		q := wd.queue(s.Q)
		if q == nil || s.Submitted {
			return
		}
		s.Q = q.idx // the queue it actually went to (the index may have been taken modulo the queues bound so far)
		c := r.begin(opAdd, q.idx, s.N)
		s.AddInv = c.Inv
		q.addsInvoked++
		h, ok := q.add(s.N, s.Prio, s.ID)
		c.OK = ok
		s.AddOK = 2
		if ok {
			s.AddOK = 1
		}
		if !s.AcceptKnown {
			s.AcceptKnown, s.Accepted = true, ok
		}
		s.h = h
		r.end(c)
		s.AddRet = c.Ret
		s.publish()
		s.Submitted = true
	case opAddAll:
		q := wd.queue(op.Q)
		if q == nil || q.addAll == nil || wd.batches[op.A] != nil {
			return
		}
		items := make([]Item[int], 0, len(op.Subs))
		for _, n := range op.Subs {
			s := wd.subs[n]
			items = append(items, Item[int]{ID: s.ID, Data: s.N, Priority: s.Prio})
		}
		c := r.begin(opAddAll, q.idx, -1)
		c.Batch = op.A
		for _, n := range op.Subs {
			wd.subs[n].Q = q.idx
			wd.subs[n].AddInv = c.Inv
			q.addsInvoked++
		}
		b := &bnd{}
		q.addAll(items, b)
		r.end(c)
		b.idx, b.subs, b.inv, b.ret = op.A, op.Subs, c.Inv, c.Ret
		for _, n := range op.Subs {
			s := wd.subs[n]
			s.AddRet = c.Ret
			s.Submitted = true
			if !s.AcceptKnown {
				// acceptance of a batch item is only observable through the wrapper;
				// decide from queue.Close calls (judge treats unknown as "maybe")
				s.Accepted = true
			}
		}
		b.publish()
		wd.batches[op.A] = b
	case opCloseJob:
		s := wd.subByN(op.A)
		if s == nil || s.h == nil || s.h.ej == nil {
			return
		}
		s.acquire()
		c := r.begin(opCloseJob, s.Q, s.N)
		c.Err = errText(s.h.ej.Close())
		r.end(c)
	case opPurge:
		q := wd.queue(op.Q)
		if q == nil {
			return
		}
		c := r.begin(opPurge, q.idx, -1)
		r.purgers = append(r.purgers, simrt.CurID())
		q.purge()
		for i, t := range r.purgers {
			if t == simrt.CurID() {
				r.purgers = removeAt(r.purgers, i)
				break
			}
		}
		r.end(c)
	case opCloseQueue:
		q := wd.queue(op.Q)
		if q == nil {
			return
		}
		c := r.begin(opCloseQueue, q.idx, -1)
		if q.closeInv == 0 {
			q.closeInv = c.Inv
		}
		c.Err = errText(q.close())
		r.end(c)
		if q.closeRet == 0 {
			q.closeRet = c.Ret
		}
	case opWait, opResult, opDrain, opStatus:
		s := wd.subByN(op.A)
		if s == nil {
			return
		}
		if !s.Submitted {
			hr := handleReady{s}
			simrt.Block(hr.ok)
		}
		if s.h == nil || s.h.ej == nil {
			return
		}
		s.acquire()
		switch op.K {
		case opWait:
			c := r.begin(opWait, s.Q, s.N)
			s.h.ej.Wait()
			r.end(c)
		case opResult:
			c := r.begin(opResult, s.Q, s.N)
			switch {
			case s.h.er != nil:
				v, err := s.h.er.Result()
				c.Val, c.Err, c.Str = v, errText(err), "result"
			case s.h.ee != nil:
				c.Err, c.Str = errText(s.h.ee.Err()), "err"
			default:
				s.h.ej.Wait()
				c.Str = "wait"
			}
			r.end(c)
		case opDrain:
			c := r.begin(opDrain, s.Q, s.N)
			if s.h.er != nil {
				s.h.er.Drain()
			} else if s.h.ee != nil {
				s.h.ee.Drain()
			}
			r.end(c)
		case opStatus:
			c := r.begin(opStatus, s.Q, s.N)
			c.Str = s.h.ej.Status()
			c.OK = s.h.ej.IsClosed()
			c.Val2 = len(s.Entries) - len(s.Exits) // executing right now (instantaneous: Status is one atomic load)
			r.end(c)
		}
	case opBatchWait, opBatchRead, opBatchPending, opBatchDrain:
		if op.A < 0 || op.A >= len(wd.batches) {
			return
		}
		if wd.batches[op.A] == nil {
			br := batchReady{wd, op.A}
			simrt.Block(br.ok)
		}
		b := wd.batches[op.A]
		b.acquire()
		switch op.K {
		case opBatchDrain:
			if b.ge == nil && b.gr == nil {
				return
			}
			c := r.begin(opBatchDrain, -1, -1)
			c.Batch = op.A
			if b.ge != nil {
				b.ge.Drain()
			} else {
				b.gr.Drain()
			}
			r.end(c)
		case opBatchWait:
			c := r.begin(opBatchWait, -1, -1)
			c.Batch = op.A
			switch {
			case b.gj != nil:
				b.gj.Wait()
			case b.ge != nil:
				b.ge.Wait()
			default:
				b.gr.Wait()
			}
			r.end(c)
			// NumPending right after Wait
			c2 := r.begin(opBatchPending, -1, -1)
			c2.Batch, c2.Arg = op.A, 1
			c2.Val = b.numPending()
			r.end(c2)
			// ... and the status of every item whose job object the recording queue has seen
			for _, x := range b.subs {
				s := wd.subByN(x)
				q := wd.queue(s.Q)
				if q == nil || q.rq == nil {
					continue
				}
				if sp, ok := q.rq.objs[x].(StatusProvider); ok {
					c3 := r.begin(opStatus, s.Q, x)
					c3.Arg, c3.Batch = 3, op.A
					c3.Str = sp.Status()
					c3.OK = sp.IsClosed()
					r.end(c3)
				}
			}
		case opBatchPending:
			c := r.begin(opBatchPending, -1, -1)
			c.Batch = op.A
			c.Val = b.numPending()
			r.end(c)
		case opBatchRead:
			wd.readStream(b)
		}
	case opPause:
		c := r.begin(opPause, -1, -1)
		c.Err = errText(w.Pause())
		r.end(c)
	case opPauseAndWait:
		c := r.begin(opPauseAndWait, -1, -1)
		c.Err = errText(w.PauseAndWait())
		r.end(c)
		wd.settledAfterBarrier(c)
	case opResume:
		c := r.begin(opResume, -1, -1)
		c.Err = errText(w.Resume())
		r.end(c)
	case opStop:
		c := r.begin(opStop, -1, -1)
		c.Err = errText(w.Stop())
		r.end(c)
		wd.settledAfterBarrier(c)
	case opWaitAndStop:
		c := r.begin(opWaitAndStop, -1, -1)
		c.Err = errText(w.WaitAndStop())
		r.end(c)
		wd.settledAfterBarrier(c)
	case opRestart:
		c := r.begin(opRestart, -1, -1)
		c.Err = errText(w.Restart())
		r.end(c)
		if c.Err == "" {
			// the run has a new error channel: the application attaches its reader again
			wd.startErrReader()
		}
	case opTune:
		c := r.begin(opTune, -1, -1)
		c.Arg = op.A
		c.Err = errText(w.TunePool(op.A))
		r.end(c)
		c2 := r.begin(opSample, -1, -1)
		c2.Arg = 100 // NumConcurrency right after TunePool
		c2.Val = w.NumConcurrency()
		r.end(c2)
	case opWUF:
		c := r.begin(opWUF, -1, -1)
		w.WaitUntilFinished()
		r.end(c)
		wd.settledAfterBarrier(c)
	case opBind:
		c := r.begin(opBind, len(wd.qs), -1)
		c.Arg = op.A
		qc := QCfg{Kind: op.A, Wrap: true}
		if wd.cfg.WKind != wkPlain && op.A > qkPrio {
			qc.Kind = op.A % 2
		}
		wd.bindQueue(qc, nil)
		r.end(c)
	case opCancelCtx:
		if wd.cancel == nil {
			return
		}
		c := r.begin(opCancelCtx, -1, -1)
		wd.cancel()
		r.end(c)
		if wd.cancelled == 0 {
			wd.cancelled = c.Inv
		}
	case opOpenGate:
		s := wd.subByN(op.A)
		if s == nil {
			return
		}
		c := r.begin(opOpenGate, -1, s.N)
		s.gate.Open()
		r.end(c)
	case opSettle:
		simrt.WaitQuiescent()
		c := r.begin(opSettle, -1, -1)
		c.Val2 = wd.root.stalledNow
		r.end(c)
		if wd.root.stalledNow > 0 {
			// let the stalled acknowledgements return; at-rest samples need real rest
			for i := 0; i < 8 && wd.root.stalledNow > 0; i++ {
				wd.root.releaseStalls()
				if op.A == 1 || op.A == 3 || op.A == 4 {
					simrt.WaitQuiescent()
				}
			}
			if wd.root.stalledNow > 0 {
				return
			}
		}
		if op.A == 1 {
			wd.sample(true)
		}
		if op.A == 3 {
			wd.sampleIdle(1)
			wd.sample(true)
		}
		if op.A == 4 {
			wd.sampleIdle(2) // end of a trickle phase
			wd.sample(true)
		}
	case opInject:
		q := wd.queue(op.Q)
		if q == nil || q.ad == nil || wd.epilogue {
			return
		}
		c := r.begin(opInject, q.idx, -1)
		bad := [][]byte{[]byte("{\"id\":\"inj\",\"status\":\"Queued\",\"data\":{{"), []byte("\x00\xff garbage"), []byte("{\"id\":\"inj2\",\"status\":\"NoSuchStatus\",\"data\":1}"), []byte("{\"id\":\"inj3\",\"status\":\"Queued\",\"data\":\"not a number\"}"), []byte("{\"id\":\"inj4\",\"status\":\"Queued\",\"data\":424242}}")}
		e := adEntry{Bad: 1, Sub: -1, Bytes: bad[op.A%len(bad)]}
		q.ad.hb()
		q.ad.inject(simrt.Choose(len(q.ad.pending)+1), e)
		q.ad.injected++
		q.ad.hb()
		q.ad.notify()
		r.end(c)
	case opWarmDone:
		wd.warmDone = true
	case opAwaitWarm:
		if wd.hasWarm && !wd.warmDone {
			simrt.Block(func() bool { return wd.warmDone })
		}
	case opAdvance:
		// only the clock moves; nobody waits for quiescence here
		simrt.Sleep(time.Duration(op.A) * timeUnit)
	case opSample:
		wd.sample(false)
	case opQueuePending:
		q := wd.queue(op.Q)
		if q == nil {
			return
		}
		c := r.begin(opQueuePending, q.idx, -1)
		c.Val = q.nump()
		r.end(c)
	case opYield:
		simrt.YieldAlways()
	case opIntro:
		c := r.begin(opIntro, -1, -1)
		n := 0
		if w.Errs() != nil {
			n++
		}
		if w.Context() != nil {
			n++
		}
		if w.IsRunning() || w.IsPaused() || w.IsStopped() {
			n++
		}
		m := w.Metrics()
		if op.A == 1 && wd.cfg.Prop == "C19" {
			// (only where no oracle reads the counters: C19 judges races and crashes)
			m.Reset()
		}
		n += int(m.Submitted()+m.Completed()+m.Successful()+m.Failed()) & 1
		n += w.NumIdleWorkers() + w.NumConcurrency() + w.NumPending() + w.NumProcessing()
		c.Str = w.Status()
		if q := wd.queue(op.Q); q != nil {
			n += q.nump()
			if q.rq != nil && wd.cfg.Prop == "C19" {
				// a user-supplied queue may look at the items it holds (or held) from its own
				// goroutines through the public Job interface: ID and Data are read-only there
				k := 0
				for _, it := range q.rq.seenItems() {
					if d, ok := it.(interface {
						Data() int
						ID() string
					}); ok {
						n += d.Data() + len(d.ID())
					}
					if k++; k >= 3 {
						break
					}
				}
			}
		}
		c.Val = n
		r.end(c)
	case opSpawn:
		root := wd.root
		if root.sharedAd == nil || len(root.qs) == 0 {
			return
		}
		c := r.begin(opSpawn, -1, -1)
		c.Arg = op.A
		cw := root.spawnConsumer(op.A, root.qs[0].cfg)
		c.W = cw.cidx
		r.end(c)
	case opAddBare:
		s := wd.subByN(op.Subs[0])
		q := wd.queue(s.Q)
		if q == nil || q.addBare == nil || s.Submitted {
			return
		}
		c := r.begin(opAdd, q.idx, s.N)
		c.Arg = 1
		s.AddInv = c.Inv
		q.addsInvoked++
		ok := q.addBare(s.N, s.Prio, s.ID)
		c.OK = ok
		if !s.AcceptKnown {
			s.AcceptKnown, s.Accepted = true, ok
		}
		r.end(c)
		s.AddRet = c.Ret
		s.publish()
		s.Submitted = true
	}
}

func (b *bnd) numPending() int {
	switch {
	case b.gj != nil:
		return b.gj.NumPending()
	case b.ge != nil:
		return b.ge.NumPending()
	default:
		return b.gr.NumPending()
	}
}

// readStream reads a batch stream until it is closed.
func (wd *World) readStream(b *bnd) {
	r := wd.rec
	c := r.begin(opBatchRead, -1, -1)
	c.Batch = b.idx
	switch {
	case b.gr != nil:
		ch := b.gr.Results()
		for {
			simrt.RecvWait(ch)
			v, ok := <-ch
			if !ok {
				break
			}
			b.got = append(b.got, streamItem{Seq: r.stamp(), JobID: v.JobId, Data: v.Data, Err: errText(v.Err), IsErr: v.Err != nil})
		}
	case b.ge != nil:
		ch := b.ge.Errs()
		for {
			simrt.RecvWait(ch)
			v, ok := <-ch
			if !ok {
				break
			}
			b.got = append(b.got, streamItem{Seq: r.stamp(), Err: errText(v), IsErr: true})
		}
	default:
		r.end(c)
		return
	}
	b.closedAt = r.stamp()
	b.readerEnd = true
	r.end(c)
}

// sample reads every counter; each read is its own Call so that interval
// oracles can be applied to each.
func (wd *World) sample(atRest bool) {
	r := wd.rec
	w := wd.w
	_, sw0, _, _, _, _ := simrt.Stats()
	type rd struct {
		arg int
		f   func() int
	}
	m := w.Metrics()
	reads := [...]rd{
		{1, w.NumPending}, {2, w.NumProcessing}, {3, w.NumConcurrency}, {4, w.NumIdleWorkers},
		{5, func() int { return int(m.Submitted()) }}, {6, func() int { return int(m.Completed()) }},
		{7, func() int { return int(m.Successful()) }}, {8, func() int { return int(m.Failed()) }},
	}
	var cs []*Call
	for _, x := range reads {
		c := r.begin(opSample, -1, -1)
		c.Arg = x.arg
		c.Val = x.f()
		r.end(c)
		cs = append(cs, c)
	}
	for _, q := range wd.qs {
		q.hb.Lock()
		q.hb.Unlock()
		c := r.begin(opQueuePending, q.idx, -1)
		c.Val = q.nump()
		r.end(c)
		cs = append(cs, c)
	}
	c := r.begin(opSample, -1, -1)
	c.Arg = 9
	c.Str = w.Status()
	r.end(c)
	cs = append(cs, c)
	// census of the goroutines the library started (the simulator's task table is
	// the exact equivalent of a goroutine dump filtered to library frames)
	pool, loops, reapers, listeners, other := wd.libCensus()
	for i, v := range []int{pool, loops, reapers, listeners, other} {
		c := r.begin(opSample, -1, -1)
		c.Arg = 30 + i
		c.Val = v
		r.end(c)
		cs = append(cs, c)
	}
	_, sw1, _, _, _, _ := simrt.Stats()
	if atRest && sw0 == sw1 {
		for _, c := range cs {
			c.AtRest = true
		}
	}
}

// libCensus counts the live tasks created by library code, by creator.
func (wd *World) libCensus() (pool, loops, reapers, listeners, other int) {
	for _, t := range simrt.Tasks() {
		if !t.Lib || t.IsExited() || t.Frozen {
			continue
		}
		switch t.Name {
		case "worker.initPoolNode":
			pool++
		case "worker.goEventLoop":
			loops++
		case "worker.goRemoveIdleWorkers":
			reapers++
		case "worker.goListenToContext":
			listeners++
		default:
			other++
		}
	}
	return
}
