package varmq

// C14 — lifecycle state machine (DESIGN §5 C14).  One controller task issues a
// call sequence; the reference machine (judge.go buildLife + the error table
// below) says what every call must return and what Status must read at every
// quiescent point; a probe job submitted after the sequence must run iff the
// reference state is Running.

import (
	"strings"

	"github.com/goptics/varmq/internal/simrt"
)

var c14Alphabet = []wop{{opBind, 2}, {opPause, 2}, {opPauseAndWait, 2}, {opResume, 3}, {opStop, 2}, {opWaitAndStop, 1}, {opRestart, 3}, {opTune, 2}, {opCancelCtx, 1}, {opWUF, 1}}

func init() {
	register(&Property{ID: "C14", Rule: "episodes = one lifecycle call sequence (length 1-4 sampled uniformly from the alphabet, or 5-12 random) x {with/without context} x {expiry} x {idle, jobs pending, jobs in flight} x {settled after every call, back-to-back}; non-trivial = >=2 lifecycle calls and >=1 library context switch; distinct = hash of sequence, configuration and schedule",
		Gen:   genC14,
		Hook:  hookC14,
		Judge: func(j *judgeCtx) { judgeC14(j); judgeConservation(j) },
		Owns:  []string{"C03.b"}, // "never reports Running while unable to process jobs", with jobs in flight
		NonTrivial: func(ep *Episode) bool {
			n := 0
			for _, c := range ep.W.rec.calls {
				if isLifecycle(c.K) || c.K == opTune {
					n++
				}
			}
			return n >= 2
		},
	})
}

func genC14(r *simrt.Rand, tier string) (Cfg, *Program) {
	pf := baseProfile()
	pf.ReenterPct = 8 // worker functions that call back into the library (not TunePool: the reference machine tracks the pool size through the sequence's own calls)
			pf.WrapDeqPct = 15 // user-supplied queues that refuse a dequeue now and then
	pf.WKinds = allW
	pf.Conc = []int{1, 2, 3}
	pf.Expiry = []int{0, 0, 50}
	pf.TickW = []int{0, 5}
	pf.UseCtxPct = 50
	pf.Producers = [2]int{0, 1}
	pf.Adds = [2]int{1, 4}
	pf.GatedPct = pick(r, []int{0, 0, 70})
	pf.DelayPct = 30
	pf.QKinds = []int{qkStd, qkPrio, qkPers, qkDist}
	pf.NQ = [2]int{0, 1}
	if r.Chance(85) {
		pf.NQ = [2]int{1, 1}
	}
	concurrentFirstBind := r.Chance(8)
	if concurrentFirstBind {
		pf.NQ = [2]int{0, 0}
	}
	c, p := generate(r, pf)
	if concurrentFirstBind {
		// the first Bind of a worker that has never run, next to a lifecycle call from another
		// goroutine that such a worker refuses (or that starts it as well): whichever comes
		// first, a worker with a bound queue is not Initiated any more afterwards
		for t, nt := 0, 1+r.Intn(2); t < nt; t++ {
			var ops []Op
			for k := r.Intn(4); k > 0; k-- {
				ops = append(ops, Op{K: opYield})
			}
			for k := 1 + r.Intn(3); k > 0; k-- {
				ops = append(ops, Op{K: pickW(r, []wop{{opStop, 4}, {opWaitAndStop, 2}, {opPauseAndWait, 1}, {opPause, 1}, {opResume, 1}})})
			}
			p.Tasks = append(p.Tasks, ops)
		}
		var ops []Op
		for k := r.Intn(4); k > 0; k-- {
			ops = append(ops, Op{K: opYield})
		}
		ops = append(ops, Op{K: opBind, A: pick(r, []int{qkStd, qkPrio})})
		for k := r.Intn(3); k > 0; k-- {
			n := len(p.Subs)
			p.Subs = append(p.Subs, SubT{N: n, Q: 0, Batch: -1})
			ops = append(ops, Op{K: opAdd, Q: 0, Subs: []int{n}})
		}
		p.Tasks = append(p.Tasks, ops)
		p.Subs = append(p.Subs, SubT{N: len(p.Subs), Q: 0, Batch: -1})
		return c, p
	}
	// controller: the call sequence
	n := 1 + r.Intn(4)
	if r.Chance(40) {
		n = 5 + r.Intn(8)
	}
	settle := r.Chance(60)
	var ops []Op
	for i := 0; i < n; i++ {
		k := pickW(r, c14Alphabet)
		op := Op{K: k}
		switch k {
		case opTune:
			op.A = pick(r, []int{1, 2, 3, 4, 0})
		case opBind:
			op.A = pick(r, []int{qkStd, qkPrio, qkPers, qkDist})
		case opCancelCtx:
			if !c.UseCtx {
				op.K = opRestart
			}
		}
		ops = append(ops, op)
		if settle {
			ops = append(ops, Op{K: opSettle, A: 1})
		}
	}
	p.Tasks = append(p.Tasks, ops)
	// a releaser so that barrier calls on gated jobs can return
	var rel []Op
	paced := r.Chance(35) // gates opened one per quiescent point: jobs stay in flight across the calls
	for _, s := range p.Subs {
		if s.Gated {
			if paced {
				rel = append(rel, Op{K: opSettle, A: 2}, Op{K: opOpenGate, A: s.N})
			} else {
				rel = append(rel, Op{K: opYield}, Op{K: opOpenGate, A: s.N})
			}
		}
	}
	if len(rel) > 0 {
		p.Tasks = append(p.Tasks, rel)
	}
	// the probe submission (not part of any script)
	p.Subs = append(p.Subs, SubT{N: len(p.Subs), Q: 0, Batch: -1})
	return c, p
}

func hookC14(wd *World) {
	wd.runProgram()
	wd.epilogue = true
	for _, s := range wd.subs {
		if s.Gated && !s.gate.IsOpen() {
			s.gate.Open()
		}
	}
	simrt.WaitQuiescent()
	wd.sample(true)
	if len(wd.qs) > 0 {
		probe := len(wd.subs) - 1
		wd.probeSub = probe
		wd.runOp(Op{K: opAdd, Subs: []int{probe}})
		simrt.WaitQuiescent()
		c := wd.rec.begin(opSettle, -1, -1)
		c.Arg = 77 // probe evaluation point
		wd.rec.end(c)
	}
	for _, s := range wd.subs {
		if s.h != nil && s.h.ej != nil {
			s.acquire()
			c := wd.rec.begin(opStatus, s.Q, s.N)
			c.Str = s.h.ej.Status()
			c.OK = s.h.ej.IsClosed()
			c.Arg = 1
			c.Val2 = len(s.Entries) - len(s.Exits)
			wd.rec.end(c)
		}
	}
}

// expected error of a lifecycle call made in reference state st; "" = nil,
// "*" = unspecified (don't care), "!" = some error.
func c14Expected(k int, st byte, sameTune bool, cancelled bool) string {
	switch k {
	case opPause, opPauseAndWait:
		switch st {
		case lsI:
			return ErrNotRunningWorker.Error()
		case lsR:
			return ""
		}
		return "*"
	case opResume:
		switch st {
		case lsR:
			return ErrRunningWorker.Error()
		case lsP:
			return ""
		case lsS:
			return "!"
		}
		return "*"
	case opStop, opWaitAndStop:
		switch st {
		case lsI:
			return "!"
		case lsR, lsP, lsS:
			return ""
		}
		return "*"
	case opRestart:
		if cancelled {
			return "*"
		}
		return ""
	case opTune:
		if st == lsR {
			if sameTune {
				return ErrSameConcurrency.Error()
			}
			return ""
		}
		if st == lsU {
			return "*"
		}
		return ErrNotRunningWorker.Error()
	}
	return "*"
}

func judgeC14(j *judgeCtx) {
	wd := j.wd
	// concurrent lifecycle callers make the reference ambiguous: single controller only
	cur := wd.effConc(wd.cfg.Conc)
	cancelled := false
	for _, c := range j.r.calls {
		if c.Phase != 0 && c.K != opSample && c.K != opSettle {
			continue
		}
		if c.K == opCancelCtx {
			cancelled = true
		}
		if (isLifecycle(c.K) || c.K == opTune) && c.K != opBind && c.K != opCancelCtx && c.Ret != 0 {
			st := j.stateAt(c.Inv - 1)
			same := false
			if c.K == opTune {
				same = wd.effConc(c.Arg) == cur
			}
			want := c14Expected(c.K, st, same, cancelled)
			// a call that another lifecycle call overlaps may take effect after it: its
			// result is judged by the linearizability clause C14.e instead
			overlapped := false
			for _, o := range j.lcalls {
				if o != c && o.Inv < c.Ret && (o.Ret == 0 || o.Ret > c.Inv) {
					overlapped = true
				}
			}
			if st != lsU && want != "*" && !overlapped {
				ok := c.Err == want || (want == "!" && c.Err != "")
				if !ok {
					j.add("C14.a", c.Ret, "%s called in state %c returned %q, the documented machine says %q", opNames[c.K], st, c.Err, want)
				}
			}
			if c.K == opTune && c.Err == "" {
				cur = wd.effConc(c.Arg)
			}
		}
		// Status at quiescent points
		if c.K == opSample && c.Arg == 9 && c.AtRest {
			st := j.stateAt(c.Inv)
			if st == lsU {
				// whatever else went on at the same time: binding a queue starts a worker that has
				// never run, and no call takes a worker back to Initiated for longer than a Restart
				if c.Str == "Initiated" {
					for _, b := range j.r.calls {
						if b.K == opBind && b.Ret != 0 && b.Ret < c.Inv {
							j.add("C14.b", c.Ret, "Status() = %q at a quiescent point although a queue was bound at [%d,%d]: a worker with a bound queue has been started (%s)", c.Str, b.Inv, b.Ret, j.lifeHistory(c.Inv))
							break
						}
					}
				}
				continue
			}
			want := map[byte]string{lsI: "Initiated", lsR: "Running", lsP: "Paused", lsS: "Stopped"}[st]
			if c.Str != want {
				j.add("C14.b", c.Ret, "Status() = %q at a quiescent point, the documented machine says %q after %s", c.Str, want, j.lifeHistory(c.Inv))
			}
		}
	}
	// probe
	for _, c := range j.r.calls {
		if c.K == opSettle && c.Arg == 77 && wd.probeSub > 0 {
			s := wd.subs[wd.probeSub]
			st := j.stateAt(c.Inv)
			// the reference state must be known and the same from the probe's submission
			// to this point (a lifecycle call still blocked at the quiescent point where
			// the probe went in returns later: the probe then met an unknown state)
			if st == lsU || !j.accepted(s) || s.AddInv == 0 || j.stateDuring(s.AddInv, c.Inv) != st {
				continue
			}
			ran := len(s.Exits) > 0
			if st == lsR && !ran && wd.cancelled == 0 {
				j.add("C14.c", c.Ret, "the worker should be Running after %s, but a job submitted afterwards was not processed (Status() reports %q)", j.lifeHistory(c.Inv), j.lastStatus())
			}
			if (st == lsP || st == lsS || st == lsI) && ran {
				j.add("C14.c", c.Ret, "the worker should be %c after %s, but a job submitted afterwards was processed", st, j.lifeHistory(c.Inv))
			}
		}
	}
}

func (j *judgeCtx) lifeHistory(upTo uint64) string {
	var sb strings.Builder
	for _, c := range j.lcalls {
		if c.Inv < upTo {
			sb.WriteString(opNames[c.K])
			if c.Err != "" {
				sb.WriteString("(err)")
			}
			sb.WriteString(" ")
		}
	}
	return "[" + strings.TrimSpace(sb.String()) + "]"
}

func (j *judgeCtx) lastStatus() string {
	st := ""
	for _, c := range j.r.calls {
		if c.K == opSample && c.Arg == 9 {
			st = c.Str
		}
	}
	return st
}
