package varmq

// Test-binary entry of the simulation checks: explore / replay / minimise
// (DESIGN §4.4, §9).  The driver (cmd/verif-run) starts one process per shard
// with GOMAXPROCS=1.

import (
	"encoding/json"
	"flag"
	"fmt"
	"os"
	"path/filepath"
	"sort"
	"strings"
	"testing"
	"time"

	"github.com/goptics/varmq/internal/simrt"
)

var (
	fProp    = flag.String("verif.prop", "", "property id")
	fMode    = flag.String("verif.mode", "explore", "explore | replay")
	fSeed    = flag.Uint64("verif.seed", 1, "base seed")
	fShard   = flag.Int("verif.shard", 0, "shard index")
	fNShards = flag.Int("verif.nshards", 1, "number of shards")
	fSecs    = flag.Float64("verif.secs", 10, "wall-clock budget of this shard")
	fMaxEp   = flag.Int("verif.episodes", 0, "episode cap (0: none)")
	fOut     = flag.String("verif.out", "", "summary json")
	fReplay  = flag.String("verif.replay", "", "replay file")
	fRepDir  = flag.String("verif.replaydir", "/verif/replays", "where replay files go")
	fKnown   = flag.String("verif.known", "/verif/known_findings.json", "known findings")
	fSites   = flag.String("verif.sites", "", "site table")
	fTier    = flag.String("verif.tier", "quick", "quick | thorough")
	fProgress = flag.String("verif.progress", "", "progress file (last seed started)")
	fRaceLog = flag.String("verif.racelog", "", "race detector log prefix (C19)")
	fRepo    = flag.String("verif.repo", "/repo", "directory the instrumented tree was taken from (file paths in race reports start with it)")
	fTrace   = flag.Bool("verif.trace", false, "print the rendered trace in replay mode")
	fNoMin   = flag.Bool("verif.nomin", false, "do not minimise")
	fOwns    = flag.String("verif.owns", "", "extra owned clause prefix (debugging)")
	fCensus  = flag.Bool("verif.census", false, "only count clause hits, report nothing")
	fKeepGoing = flag.Bool("verif.keepgoing", false, "continue after a violation (collect all clauses)")
)

var numSites = 4096
var siteTable []siteInfo

type siteInfo struct {
	ID   int    `json:"id"`
	File string `json:"file"`
	Line int    `json:"line"`
	Func string `json:"func"`
	Kind string `json:"kind"`
}

type Property struct {
	ID         string
	Gen        func(r *simrt.Rand, tier string) (Cfg, *Program)
	Hook       func(wd *World)
	Judge      func(j *judgeCtx)
	Owns       []string // additional clause prefixes (besides "<ID>.")
	NonTrivial func(ep *Episode) bool
	Rule       string
	Standalone func(t *testing.T, p *Property) // properties with their own episode loop (C04 layer Q, ...)
	Pre        func(p *Property, sum *Summary, fingers map[uint64]bool, deadline time.Time, budget time.Duration) bool // runs before the generic loop; true = stop (violation or infra)
	Derive     func(ep *Episode, r *simrt.Rand, tier string) []Cfg // further configurations to run with the same program and tape (crash sweep)
	NoRerun    bool                            // violations cannot be re-run in the same process (race reports are deduplicated by the detector)
}

var properties = map[string]*Property{}

func register(p *Property) { properties[p.ID] = p }

func (p *Property) owns(clause string) bool {
	if strings.HasPrefix(clause, p.ID+".") {
		return true
	}
	switch clause {
	case "crash", "hang", "internal", "livelock":
		return true
	}
	for _, o := range p.Owns {
		if strings.HasPrefix(clause, o) {
			return true
		}
	}
	if *fOwns != "" && strings.HasPrefix(clause, *fOwns) {
		return true
	}
	return false
}

func (p *Property) firstOwned(vs []Viol) *Viol {
	for i := range vs {
		if p.owns(vs[i].Clause) {
			return &vs[i]
		}
	}
	return nil
}

// ReplayFile is what a violation is reported as (and what --replay consumes).
type ReplayFile struct {
	Property string   `json:"property"`
	Clause   string   `json:"clause"`
	Msg      string   `json:"msg"`
	Seed     uint64   `json:"seed"`
	Cfg      Cfg      `json:"cfg"`
	Prog     *Program `json:"prog"`
	Tape     []uint32 `json:"tape"`
	Steps    uint64   `json:"steps"`
	Known    string   `json:"known,omitempty"`
	Minimised bool    `json:"minimised"`
	OrigOps  int      `json:"orig_ops"`
	Ops      int      `json:"ops"`
	Preempts int      `json:"preemptions"`
	Trace    []string `json:"trace"`
}

type ViolOut struct {
	Clause string `json:"clause"`
	Msg    string `json:"msg"`
	Seed   uint64 `json:"seed"`
	Replay string `json:"replay"`
	Known  string `json:"known,omitempty"`
}

type Summary struct {
	Property   string            `json:"property"`
	Shard      int               `json:"shard"`
	Episodes   int               `json:"episodes"`
	NonTrivial int               `json:"nontrivial"`
	Fingers    []uint64          `json:"fingers"`
	Steps      uint64            `json:"steps"`
	SimTimeMs  int64             `json:"sim_time_ms"`
	Switches   uint64            `json:"switches"`
	LibSwitches uint64           `json:"lib_switches"`
	Verdicts   map[string]int    `json:"verdicts"`
	Faults     map[string]int    `json:"faults"`
	Probes     map[string]int    `json:"probes"`
	Foreign    map[string]int    `json:"foreign_clauses"` // clauses of other properties seen (not reported)
	Viols      []ViolOut         `json:"violations"`
	KnownHits  map[string]int    `json:"known_hits"`
	Samples    []json.RawMessage `json:"samples"`
	Strategies map[string]int    `json:"strategies"`
	WallS      float64           `json:"wall_s"`
	Infra      string            `json:"infra,omitempty"`
	Extra      map[string]int    `json:"extra,omitempty"`
	Rule       string            `json:"rule"`
}

func mix(a, b, c uint64) uint64 {
	x := a*0x9e3779b97f4a7c15 ^ (b+1)*0xbf58476d1ce4e5b9 ^ (c+1)*0x94d049bb133111eb
	x ^= x >> 31
	x *= 0xd6e8feb86659fd93
	x ^= x >> 29
	return x
}

func loadSites() {
	if *fSites == "" {
		return
	}
	b, err := os.ReadFile(*fSites)
	if err != nil {
		return
	}
	json.Unmarshal(b, &siteTable)
	if n := len(siteTable) + 2; n > numSites {
		numSites = n
	}
}

func TestVerif(t *testing.T) {
	if *fProp == "" {
		t.Skip("no property selected")
	}
	loadSites()
	p := properties[*fProp]
	if p == nil {
		t.Fatalf("unknown property %s", *fProp)
	}
	loadKnown()
	if p.Standalone != nil {
		p.Standalone(t, p)
		return
	}
	if *fMode == "replay" {
		os.Exit(replayMain(p))
	}
	if *fMode == "hash" {
		hashMain(p)
		return
	}
	exploreMain(p)
}

func writeJSON(path string, v any) {
	b, _ := json.MarshalIndent(v, "", " ")
	os.MkdirAll(filepath.Dir(path), 0o755)
	os.WriteFile(path, b, 0o644)
}

func exploreMain(p *Property) {
	start := time.Now()
	sum := &Summary{Rule: p.Rule, Property: p.ID, Shard: *fShard, Verdicts: map[string]int{}, Faults: map[string]int{}, Probes: map[string]int{}, Foreign: map[string]int{}, KnownHits: map[string]int{}, Strategies: map[string]int{}, Extra: map[string]int{}}
	fingers := map[uint64]bool{}
	deadline := start.Add(time.Duration(*fSecs * float64(time.Second)))
	var prog *os.File
	if *fProgress != "" {
		prog, _ = os.Create(*fProgress)
	}
	preStop := false
	if p.Pre != nil {
		preStop = p.Pre(p, sum, fingers, deadline, time.Duration(*fSecs*float64(time.Second)))
	}
	for i := 0; !preStop; i++ {
		if *fMaxEp > 0 && i >= *fMaxEp {
			break
		}
		if time.Now().After(deadline) {
			break
		}
		seed := mix(*fSeed, uint64(*fShard), uint64(i))
		if prog != nil {
			prog.WriteAt([]byte(fmt.Sprintf("%020d\n", seed)), 0)
		}
		r := simrt.NewRand(seed)
		cfg, pr := p.Gen(r, *fTier)
		cfg.Prop = p.ID
		t0 := time.Now()
		ep := runEpisode(p, cfg, pr, seed, nil, false)
		if ms := int(time.Since(t0) / time.Millisecond); ms > sum.Extra["slowest_episode_ms"] {
			sum.Extra["slowest_episode_ms"] = ms
			sum.Extra["slowest_episode_steps"] = int(ep.Res.Steps)
			sum.Extra["slowest_episode_subs"] = len(pr.Subs)
		}
		stop := account(p, sum, fingers, ep, seed)
		if stop {
			break
		}
		if p.Derive != nil && p.firstOwned(ep.Viols) == nil {
			for _, c2 := range p.Derive(ep, r, *fTier) {
				if time.Now().After(deadline.Add(30 * time.Second)) {
					break
				}
				ep2 := runEpisode(p, c2, pr, seed, ep.Res.Tape, false)
				sum.Extra["derived_episodes"]++
				if account(p, sum, fingers, ep2, seed) {
					stop = true
					break
				}
			}
			if stop {
				break
			}
		}
	}
	for f := range fingers {
		sum.Fingers = append(sum.Fingers, f)
	}
	sort.Slice(sum.Fingers, func(a, b int) bool { return sum.Fingers[a] < sum.Fingers[b] })
	sum.WallS = time.Since(start).Seconds()
	if *fOut != "" {
		writeJSON(*fOut, sum)
	}
}

// account books one finished episode; it returns true when exploration must stop.
func account(p *Property, sum *Summary, fingers map[uint64]bool, ep *Episode, seed uint64) bool {
	cfg := ep.Cfg
	sum.Episodes++
	sum.Steps += ep.Res.Steps
	sum.SimTimeMs += int64(ep.Res.Now / time.Millisecond)
	sum.Switches += ep.Switches
	sum.LibSwitches += ep.LibSwitches
	sum.Verdicts[ep.Res.Verdict.String()]++
	sum.Strategies[[]string{"rw", "pct", "np"}[cfg.Strat%3]]++
	collectFaults(sum, ep)
	nt := ep.LibSwitches > 0 && (p.NonTrivial == nil || p.NonTrivial(ep))
	if nt {
		sum.NonTrivial++
		fingers[ep.Finger^fingerOfProgram(ep)^uint64(cfg.CrashAt)*0x9e3779b97f4a7c15] = true
	}
	if len(sum.Samples) < 2 && nt {
		sum.Samples = append(sum.Samples, renderSample(ep, seed))
	}
	if ep.Res.Verdict == simrt.VInternal {
		sum.Infra = ep.Res.Msg
		return true
	}
	seenC := map[string]bool{}
	for _, v := range ep.Viols {
		if !p.owns(v.Clause) {
			sum.Foreign[v.Clause]++
		}
		if !seenC[v.Clause] {
			seenC[v.Clause] = true
			sum.Extra["clause:"+v.Clause]++
		}
		if v.Clause == "C19.a" {
			sum.Extra["race:"+v.Msg]++
		}
	}
	sum.Extra["harness_only_race_reports"] += ep.HarnessRaces
	if *fCensus {
		return false
	}
	v := p.firstOwned(ep.Viols)
	if v == nil {
		return false
	}
	vo := handleViolation(p, ep, seed, *v, sum)
	if vo.Known != "" {
		sum.KnownHits[vo.Known]++
		return false
	}
	sum.Viols = append(sum.Viols, vo)
	if !*fKeepGoing {
		return true
	}
	return len(sum.Viols) > 20
}

func fingerOfProgram(ep *Episode) uint64 {
	h := uint64(1469598103934665603)
	for _, t := range ep.Prog.Tasks {
		for _, o := range t {
			h = (h ^ uint64(o.K*131+o.A*7+o.Q)) * 1099511628211
		}
		h = (h ^ 0xff) * 1099511628211
	}
	h = (h ^ uint64(ep.Cfg.Conc*17+ep.Cfg.WKind*5+ep.Cfg.Expiry)) * 1099511628211
	return h
}

func collectFaults(sum *Summary, ep *Episode) {
	wd := ep.W
	sum.Faults["ticks_fired"] += int(ep.Ticks)
	sum.Faults["pool_cache_drops"] += int(ep.PoolDrops)
	for _, q := range wd.qs {
		if q.rq != nil {
			sum.Faults["dequeue_refused_by_user_queue"] += q.rq.Refused
		}
		if q.ad != nil {
			sum.Faults["enqueue_refused"] += q.ad.FiredEnq
			sum.Faults["dequeue_refused"] += q.ad.FiredDeq
			sum.Faults["delivery_without_ack_id"] += q.ad.NoAckIDs
			sum.Faults["ack_refused"] += q.ad.FiredAck
			sum.Faults["ack_stalled"] += q.ad.FiredStall
			sum.Faults["ack_applied_answer_lost"] += q.ad.FiredAckLost
			sum.Faults["bad_entries_injected"] += q.ad.injected
			sum.Faults["notification_duplicated"] += q.ad.Dups
			sum.Faults["notification_other_action"] += q.ad.Others
			sum.Faults["notification_delayed"] += q.ad.Delays
			sum.Faults["dequeue_lost_race"] += q.ad.lostRace
		}
	}
	sum.Faults["crashes"] += wd.crashes
	for _, c := range wd.rec.calls {
		switch c.K {
		case opCloseJob:
			sum.Faults["cancel_calls"]++
		case opPurge:
			sum.Faults["purge_calls"]++
		case opCloseQueue:
			sum.Faults["queue_close_calls"]++
		case opCancelCtx:
			sum.Faults["context_cancels"]++
		case opStop, opWaitAndStop:
			sum.Faults["stop_calls"]++
		case opPause, opPauseAndWait:
			sum.Faults["pause_calls"]++
		case opSpawn:
			sum.Faults["consumers_spawned"]++
		}
	}
	for _, s := range wd.subs {
		if len(s.Entries) > 0 {
			switch s.Outcome {
			case 1:
				sum.Faults["fn_returned_error"]++
			case 2, 3, 4, 5:
				sum.Faults["fn_panicked"]++
			}
		}
	}
	for i, n := range wd.rec.probes {
		sum.Probes[probeNames[i]] += n
	}
}

func countOps(p *Program) int {
	n := 0
	for _, t := range p.Tasks {
		n += len(t)
	}
	return n
}

func countPreempt(tape []uint32) int {
	n := 0
	for _, v := range tape {
		if v != 0 {
			n++
		}
	}
	return n
}

// handleViolation confirms, minimises, matches known findings and writes the replay file.
func handleViolation(p *Property, ep *Episode, seed uint64, v Viol, sum *Summary) ViolOut {
	cfg, prog, tape := ep.Cfg, ep.Prog, ep.Res.Tape
	if p.NoRerun {
		known := matchKnown(p, ep, v)
		rf := &ReplayFile{Property: p.ID, Clause: v.Clause, Msg: v.Msg, Seed: seed, Cfg: cfg, Prog: prog, Tape: tape, Steps: ep.Res.Steps, Known: known,
			OrigOps: countOps(prog), Ops: countOps(prog), Preempts: countPreempt(tape), Trace: append(renderTrace(ep), ep.RaceTexts...)}
		name := fmt.Sprintf("%s-%s-%d.json", p.ID, strings.ReplaceAll(v.Clause, ".", "_"), seed)
		if known != "" {
			name = "known-" + name
		}
		path := filepath.Join(*fRepDir, name)
		writeJSON(path, rf)
		return ViolOut{Clause: v.Clause, Msg: v.Msg, Seed: seed, Replay: path, Known: known}
	}
	// 1. confirm: the recorded tape must reproduce the same clause
	ep2 := runEpisode(p, cfg, prog, seed, tape, true)
	v2 := p.firstOwned(ep2.Viols)
	if v2 == nil || v2.Clause != v.Clause || ep2.Diverged {
		sum.Infra = fmt.Sprintf("violation %s of seed %d did not reproduce from its own tape (got %v, diverged=%v): simulator nondeterminism", v.Clause, seed, v2, ep2.Diverged)
		return ViolOut{Clause: v.Clause, Msg: v.Msg, Seed: seed, Known: "nonreproducible"}
	}
	orig := countOps(prog)
	best := ep2
	if !*fNoMin {
		best = minimise(p, ep2, seed, v.Clause)
	}
	bv := p.firstOwned(best.Viols)
	known := matchKnown(p, best, *bv)
	if known == "" {
		known = matchKnown(p, ep2, *v2)
	}
	rf := &ReplayFile{Property: p.ID, Clause: bv.Clause, Msg: bv.Msg, Seed: best.Seed, Cfg: best.Cfg, Prog: best.Prog, Tape: best.Res.Tape, Steps: best.Res.Steps,
		Known: known, Minimised: !*fNoMin, OrigOps: orig, Ops: countOps(best.Prog), Preempts: countPreempt(best.Res.Tape), Trace: renderTrace(best)}
	name := fmt.Sprintf("%s-%s-%d.json", p.ID, strings.ReplaceAll(bv.Clause, ".", "_"), seed)
	if known != "" {
		name = "known-" + name
	}
	path := filepath.Join(*fRepDir, name)
	writeJSON(path, rf)
	return ViolOut{Clause: bv.Clause, Msg: bv.Msg, Seed: seed, Replay: path, Known: known}
}

// replayMain runs a replay file strictly; exit 1 when the violation reproduces.
func replayMain(p *Property) int {
	b, err := os.ReadFile(*fReplay)
	if err != nil {
		fmt.Println("cannot read replay file:", err)
		return 2
	}
	var rf ReplayFile
	if err := json.Unmarshal(b, &rf); err != nil {
		fmt.Println("bad replay file:", err)
		return 2
	}
	if rf.Cfg.Prop == "C07F" {
		ep, _ := c07fEpisode(rf.Seed)
		if v := p.firstOwned(ep.Viols); v != nil {
			fmt.Printf("REPRODUCED clause=%s: %s\nVIOLATION property=%s replay=%s\n", v.Clause, v.Msg, rf.Property, *fReplay)
			return 1
		}
		fmt.Printf("NOT REPRODUCED: property=%s clause=%s no longer fails on this tree\n", rf.Property, rf.Clause)
		return 0
	}
	if rf.Cfg.Prop == "C11U" {
		_, cw := c12Types[int(rf.Seed%uint64(len(c12Types)))].run(rf.Seed, *fTier)
		clause, msg := c11uCheck(cw)
		if clause == "" {
			fmt.Printf("NOT REPRODUCED: property=%s clause=%s no longer fails on this tree\n", rf.Property, rf.Clause)
			return 0
		}
		fmt.Printf("REPRODUCED clause=%s: %s\nVIOLATION property=%s replay=%s\n", clause, msg, rf.Property, *fReplay)
		return 1
	}
	if rf.Cfg.Prop == "C17Q" {
		res := layerQ(rf.Seed, *fTier, true)
		clause, msg := c17qCheck(res)
		if clause == "" {
			fmt.Printf("NOT REPRODUCED: property=%s clause=%s no longer fails on this tree\n", rf.Property, rf.Clause)
			return 0
		}
		fmt.Printf("REPRODUCED clause=%s: %s\nVIOLATION property=%s replay=%s\n", clause, msg, rf.Property, *fReplay)
		return 1
	}
	if rf.Cfg.Prop == "C04Q" {
		res := c04LayerQ(rf.Seed, *fTier)
		clause, msg, _ := c04Check(res)
		if clause == "" {
			fmt.Printf("NOT REPRODUCED: property=%s clause=%s no longer fails on this tree\n", rf.Property, rf.Clause)
			return 0
		}
		fmt.Printf("REPRODUCED clause=%s: %s\nVIOLATION property=%s replay=%s\n", clause, msg, rf.Property, *fReplay)
		return 1
	}
	ep := runEpisode(p, rf.Cfg, rf.Prog, rf.Seed, rf.Tape, true)
	v := p.firstOwned(ep.Viols)
	if *fTrace {
		for _, l := range renderTrace(ep) {
			fmt.Println(l)
		}
	}
	if ep.Diverged {
		fmt.Printf("DIVERGED: the tape could not be followed on this tree (steps %d, want %d)\n", ep.Res.Steps, rf.Steps)
		if v == nil {
			return 2
		}
	}
	if v == nil {
		fmt.Printf("NOT REPRODUCED: property=%s clause=%s no longer fails on this tree\n", rf.Property, rf.Clause)
		return 0
	}
	fmt.Printf("REPRODUCED clause=%s seq=%d: %s\n", v.Clause, v.Seq, v.Msg)
	if v.Clause != rf.Clause {
		fmt.Printf("(recorded clause was %s)\n", rf.Clause)
	}
	fmt.Printf("VIOLATION property=%s replay=%s\n", rf.Property, *fReplay)
	return 1
}

// ---------------------------------------------------------------- minimisation

func cloneProg(p *Program) *Program {
	q := &Program{Subs: p.Subs, NBatches: p.NBatches}
	for _, t := range p.Tasks {
		q.Tasks = append(q.Tasks, append([]Op(nil), t...))
	}
	return q
}

// minimise shrinks program, configuration and schedule while the same clause
// keeps failing (ddmin over ops, then toward the non-preemptive normal form).
func minimise(p *Property, ep *Episode, seed uint64, clause string) *Episode {
	best := ep
	budget := 1500
	deadline := time.Now().Add(20 * time.Second)
	research := 0
	try := func(cfg Cfg, prog *Program, tape []uint32) bool {
		if budget <= 0 || time.Now().After(deadline) {
			return false
		}
		budget--
		e := runEpisode(p, cfg, prog, best.Seed, tape, false)
		v := p.firstOwned(e.Viols)
		if v != nil && v.Clause == clause && e.Res.Verdict != simrt.VInternal {
			best = e
			return true
		}
		// a smaller program shifts every later decision: the old tape rarely fits.
		// Search a few fresh schedules for the candidate instead of giving it up.
		for i := 0; i < research && budget > 0 && time.Now().Before(deadline); i++ {
			budget--
			e := runEpisode(p, cfg, prog, mix(best.Seed, 0x5eed, uint64(budget)), nil, false)
			v := p.firstOwned(e.Viols)
			if v != nil && v.Clause == clause && e.Res.Verdict != simrt.VInternal {
				best = e
				return true
			}
		}
		return false
	}
	// configuration simplifications
	for _, f := range []func(c *Cfg){
		func(c *Cfg) { c.Density = 0 }, func(c *Cfg) { c.TickW = 0 }, func(c *Cfg) { c.PoolDrop = 0 },
		func(c *Cfg) { c.ErrReader = false }, func(c *Cfg) { c.IDGen = false },
	} {
		c := best.Cfg
		f(&c)
		try(c, best.Prog, best.Res.Tape)
	}
	// drop whole tasks, then ops (chunks of decreasing size)
	research = 3
	for changed := true; changed && budget > 0 && time.Now().Before(deadline); {
		changed = false
		for ti := 0; ti < len(best.Prog.Tasks) && time.Now().Before(deadline); ti++ {
			if len(best.Prog.Tasks[ti]) == 0 {
				continue
			}
			q := cloneProg(best.Prog)
			q.Tasks[ti] = nil
			if try(best.Cfg, q, best.Res.Tape) {
				changed = true
			}
		}
		for ti := 0; ti < len(best.Prog.Tasks); ti++ {
			for sz := len(best.Prog.Tasks[ti]); sz >= 1 && time.Now().Before(deadline); sz /= 2 {
				for at := 0; at+sz <= len(best.Prog.Tasks[ti]) && time.Now().Before(deadline); {
					q := cloneProg(best.Prog)
					q.Tasks[ti] = append(append([]Op(nil), q.Tasks[ti][:at]...), q.Tasks[ti][at+sz:]...)
					if try(best.Cfg, q, best.Res.Tape) {
						changed = true
					} else {
						at += sz
					}
				}
			}
		}
	}
	// schedule: zero chunks of the tape (stay on the current task / no fault)
	research = 0
	tape := append([]uint32(nil), best.Res.Tape...)
	for sz := len(tape); sz >= 1 && budget > 0 && time.Now().Before(deadline); sz /= 2 {
		for at := 0; at+sz <= len(tape) && budget > 0 && time.Now().Before(deadline); at += sz {
			nz := false
			for _, x := range tape[at : at+sz] {
				if x != 0 {
					nz = true
				}
			}
			if !nz {
				continue
			}
			cand := append([]uint32(nil), tape...)
			for k := at; k < at+sz; k++ {
				cand[k] = 0
			}
			if try(best.Cfg, best.Prog, cand) {
				tape = append([]uint32(nil), best.Res.Tape...)
				if at+sz > len(tape) {
					break
				}
			}
		}
	}
	// final: strict re-run of the winner so that the stored tape is exact
	e := runEpisode(p, best.Cfg, best.Prog, best.Seed, best.Res.Tape, true)
	if v := p.firstOwned(e.Viols); v != nil && v.Clause == clause && !e.Diverged {
		return e
	}
	return ep
}

// ---------------------------------------------------------------- rendering

func siteStr(id int32) string {
	if int(id) >= 1 && int(id) <= len(siteTable) {
		s := siteTable[id-1]
		return fmt.Sprintf("%s:%d(%s)", s.File, s.Line, s.Func)
	}
	return fmt.Sprintf("site%d", id)
}

func renderOp(o Op) string {
	s := opNames[o.K]
	switch o.K {
	case opAdd:
		return fmt.Sprintf("Add(job%d)", o.Subs[0])
	case opAddAll:
		return fmt.Sprintf("AddAll(q%d,batch%d,%v)", o.Q, o.A, o.Subs)
	case opCloseJob, opWait, opResult, opDrain, opStatus, opOpenGate:
		return fmt.Sprintf("%s(job%d)", s, o.A)
	case opPurge, opCloseQueue, opQueuePending:
		return fmt.Sprintf("%s(q%d)", s, o.Q)
	case opBatchWait, opBatchRead, opBatchPending, opBatchDrain:
		return fmt.Sprintf("%s(batch%d)", s, o.A)
	case opTune, opAdvance, opBind:
		return fmt.Sprintf("%s(%d)", s, o.A)
	}
	return s
}

func renderProgram(p *Program) []string {
	var out []string
	for i, t := range p.Tasks {
		var ops []string
		for _, o := range t {
			ops = append(ops, renderOp(o))
		}
		out = append(out, fmt.Sprintf("client%d: %s", i, strings.Join(ops, "; ")))
	}
	return out
}

func renderSample(ep *Episode, seed uint64) json.RawMessage {
	m := map[string]any{
		"seed": seed, "worker": wkNames[ep.Cfg.WKind], "concurrency": ep.Cfg.Conc, "expiry": ep.Cfg.Expiry, "ratio": ep.Cfg.Ratio,
		"strategy": []string{"rw", "pct", "np"}[ep.Cfg.Strat%3], "program": renderProgram(ep.Prog), "steps": ep.Res.Steps,
		"verdict": ep.Res.Verdict.String(), "context_switches": ep.Switches,
	}
	var qs []string
	for _, q := range ep.Cfg.Queues {
		qs = append(qs, qkNames[q.Kind])
	}
	m["queues"] = qs
	t := ep.Res.Tape
	if len(t) > 40 {
		t = t[:40]
	}
	m["first_choices"] = t
	b, _ := json.Marshal(m)
	return b
}

// renderTrace merges calls, function events and queue events by sequence number.
func renderTrace(ep *Episode) []string {
	type line struct {
		seq uint64
		s   string
	}
	var ls []line
	wd := ep.W
	ls = append(ls, line{0, fmt.Sprintf("config: worker=%s conc=%d expiry=%d ratio=%d queues=%v strat=%d", wkNames[wd.cfg.WKind], wd.cfg.Conc, wd.cfg.Expiry, wd.cfg.Ratio, wd.cfg.Queues, wd.cfg.Strat)})
	for _, l := range renderProgram(ep.Prog) {
		ls = append(ls, line{0, "program " + l})
	}
	for _, c := range wd.rec.calls {
		name := opNames[c.K]
		tgt := ""
		if c.Sub >= 0 {
			tgt = fmt.Sprintf(" job%d", c.Sub)
		} else if c.Batch >= 0 {
			tgt = fmt.Sprintf(" batch%d", c.Batch)
		} else if c.Q >= 0 {
			tgt = fmt.Sprintf(" q%d", c.Q)
		}
		if c.K == opSample || (c.K == opQueuePending && c.AtRest) {
			if c.Ret != 0 {
				ls = append(ls, line{c.Ret, fmt.Sprintf("t%d sample#%d%s = %d %s rest=%v", c.Task, c.Arg, tgt, c.Val, c.Str, c.AtRest)})
			}
			continue
		}
		ls = append(ls, line{c.Inv, fmt.Sprintf("t%d invoke %s%s arg=%d", c.Task, name, tgt, c.Arg)})
		if c.Ret != 0 {
			ls = append(ls, line{c.Ret, fmt.Sprintf("t%d return %s%s ok=%v val=%d err=%q %s", c.Task, name, tgt, c.OK, c.Val, c.Err, c.Str)})
		}
	}
	for _, f := range wd.rec.fns {
		k := "exit "
		if f.Enter {
			k = "ENTER"
		}
		ls = append(ls, line{f.Seq, fmt.Sprintf("t%d fn %s job%d (consumer %d)", f.Task, k, f.Sub, f.W)})
	}
	for _, q := range wd.rec.qevs {
		ls = append(ls, line{q.Seq, fmt.Sprintf("   queue q%d %s job%d", q.Q, []string{"enqueue", "enqueue-rejected", "dequeue", "purged"}[q.K], q.Sub)})
	}
	for _, q := range wd.qs {
		if q.ad != nil {
			for _, c := range q.ad.calls {
				ls = append(ls, line{c.Seq, fmt.Sprintf("t%d adapter q%d %s job%d id=%s ok=%v", c.Task, q.idx, c.Op, c.Sub, c.ID, c.OK)})
			}
		}
	}
	if *fTrace {
		for _, sw := range ep.Res.Switches {
			why := "preempted"
			if sw.FromBlock != "" {
				why = sw.FromBlock
			}
			ls = append(ls, line{sw.Step, fmt.Sprintf("      ~ switch t%d (%s, %s) -> t%d (after %s)", sw.From, siteStr(sw.FromSite), why, sw.To, siteStr(sw.ToSite))})
		}
	}
	sort.SliceStable(ls, func(a, b int) bool { return ls[a].seq < ls[b].seq })
	var out []string
	for _, l := range ls {
		out = append(out, fmt.Sprintf("%6d %s", l.seq, l.s))
	}
	out = append(out, fmt.Sprintf("end: verdict=%s steps=%d simtime=%v", ep.Res.Verdict, ep.Res.Steps, ep.Res.Now))
	for _, t := range ep.Res.Tasks {
		st := "exited"
		if t.IsBlocked() {
			st = "blocked on " + t.BlockKind()
		} else if !t.IsExited() {
			st = "runnable"
		}
		out = append(out, fmt.Sprintf("task %d %s lib=%v: %s (last site %s)", t.ID, t.Name, t.Lib, st, siteStr(t.LastSite)))
	}
	for _, t := range ep.Res.Tasks {
		if t.PanicVal != nil {
			out = append(out, fmt.Sprintf("panic in task %d (%s): %v", t.ID, t.Name, t.PanicVal))
			for _, l := range strings.Split(t.PanicStack, "\n") {
				if strings.Contains(l, "varmq") && !strings.Contains(l, "simrt") {
					out = append(out, "    "+strings.TrimSpace(l))
				}
			}
		}
	}
	for _, v := range ep.Viols {
		out = append(out, fmt.Sprintf("VIOL %s @%d: %s", v.Clause, v.Seq, v.Msg))
	}
	return out
}


// hashMain prints one line per episode: seed and a hash of everything recorded
// (determinism self-test, DESIGN §7.1).
func hashMain(p *Property) {
	n := *fMaxEp
	if n == 0 {
		n = 50
	}
	for i := 0; i < n; i++ {
		seed := mix(*fSeed, uint64(*fShard), uint64(i))
		r := simrt.NewRand(seed)
		cfg, pr := p.Gen(r, *fTier)
		cfg.Prop = p.ID
		ep := runEpisode(p, cfg, pr, seed, nil, false)
		fmt.Printf("HASH %s %d %016x steps=%d verdict=%s\n", p.ID, seed, episodeHash(ep), ep.Res.Steps, ep.Res.Verdict)
	}
}

func episodeHash(ep *Episode) uint64 {
	h := uint64(1469598103934665603)
	mixin := func(x uint64) { h = (h ^ x) * 1099511628211 }
	mixin(ep.Res.Steps)
	mixin(uint64(ep.Res.Verdict))
	for _, t := range ep.Res.Tape {
		mixin(uint64(t))
	}
	for _, c := range ep.W.rec.calls {
		mixin(uint64(c.K))
		mixin(uint64(c.Sub + 7))
		mixin(c.Inv)
		mixin(c.Ret)
		mixin(uint64(c.Val + 3))
		for i := 0; i < len(c.Err); i++ {
			mixin(uint64(c.Err[i]))
		}
		for i := 0; i < len(c.Str); i++ {
			mixin(uint64(c.Str[i]))
		}
	}
	for _, f := range ep.W.rec.fns {
		mixin(f.Seq)
		mixin(uint64(f.Sub + 1))
		mixin(uint64(f.Task))
	}
	for _, q := range ep.W.rec.qevs {
		mixin(q.Seq)
		mixin(uint64(q.Sub + 5))
		mixin(uint64(q.K))
	}
	for _, v := range ep.Viols {
		for i := 0; i < len(v.Clause); i++ {
			mixin(uint64(v.Clause[i]))
		}
		mixin(v.Seq)
	}
	return h
}
