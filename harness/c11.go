package varmq

// C11 — acknowledge only after processing, at most once; no accepted job lost
// in a crash (DESIGN §5 C11).  Base runs explore adapter faults; every base run
// is then re-executed with the process killed at each of its cut points
// (adapter calls, worker-function entry/exit), followed by recovery: the
// adapter makes unacknowledged deliveries pending again and a new worker is
// bound to it.

import (
	"fmt"
	"strings"
	"time"

	"github.com/goptics/varmq/internal/simrt"
)

func init() {
	register(&Property{ID: "C11",
		Pre: c11Pre,
		Rule: "unencodable-payload layer (6 % of the budget): float64 payloads incl. NaN/Inf on the acknowledging kinds, Add must not report acceptance for what it could not hand to the adapter; base episodes on acknowledging adapters (persistent/distributed, plain/priority) with seeded enqueue/dequeue/acknowledge refusals; each base episode is re-run with a crash at every cut point (all when <= 150 in quick / 400 in thorough, else a seeded sample of 48/128) followed by recovery; non-trivial = crash with non-empty pending/unacked state, or >=1 fault fired; distinct = hash of (schedule, program, crash point)",
		Gen:    genC11,
		Hook:   hookC11,
		Judge:  judgeC11,
		Derive: deriveC11,
		NonTrivial: func(ep *Episode) bool {
			wd := ep.W
			if wd.crashes > 0 {
				return wd.crashHadState
			}
			for _, q := range wd.qs {
				if q.ad != nil && q.ad.FiredAck+q.ad.FiredDeq+q.ad.FiredEnq > 0 {
					return true
				}
			}
			return len(wd.rec.fns) > 0
		},
	})
}

func genC11(r *simrt.Rand, tier string) (Cfg, *Program) {
	pf := baseProfile()
	pf.WKinds = []int{wkPlain}
	pf.QKinds = []int{qkPers, qkPersPrio, qkDist, qkDistPrio}
	pf.WrapPct = 0
	pf.Conc = []int{1, 1, 2, 3, 4}
	pf.Producers, pf.Adds = [2]int{1, 3}, [2]int{1, 5}
	pf.DelayPct, pf.MaxDelay = 40, 3
	pf.ErrPct, pf.PanicPct = 10, 10
	pf.AdFaults = r.Chance(50)
	pf.ErrReaderPct = 30
	pf.CloseInFnPct = 8
	pf.IDPct = 40 // chosen job ids (printable, control characters, non-BMP runes) must survive storage
	if r.Chance(10) {
		// the worker's context is cancelled while deliveries are on their way to a pool
		// goroutine: whatever is not processed must not be acknowledged
		pf.UseCtxPct = 100
		pf.Ctrl = []wop{{opCancelCtx, 1}}
		pf.CtrlOps = [2]int{1, 1}
		pf.CtrlGapPct = 60
	}
	if r.Chance(12) {
		// the queue handle is closed while accepted jobs are still held by the backend (an
		// orderly shutdown): closing must not take anything out of the durable store
		pf.Cancellers, pf.CancelOps = [2]int{1, 1}, [2]int{1, 2}
		pf.Cancel = []wop{{opCloseQueue, 1}}
	}
	if r.Chance(12) {
		// two acknowledging backends behind one worker, one of them refusing dequeues: every
		// acknowledgement must go to the backend that issued it (both number their deliveries
		// the same way).  No crash sweep for these (deriveC11).
		pf.NQ = [2]int{2, 2}
		pf.AdFaults = true
		pf.Strategy = []int{0, 1, 2}
	}
	if r.Chance(12) {
		// somebody waits for the worker to finish (and takes its lock to look) while others
		// submit: an accepted job must not be left in the backend because its wake-up arrived
		// at that moment
		pf.Waiters, pf.WaitOps = [2]int{1, 2}, [2]int{1, 4}
		pf.Wait = []wop{{opWUFw, 1}}
	}
	c, p := generate(r, pf)
	if len(c.Queues) > 1 {
		for i := range c.Queues {
			if c.Queues[i].FDeq == 0 && r.Chance(60) {
				c.Queues[i].FDeq = 30
			}
		}
	}
	if r.Chance(25) {
		// entries this worker cannot decode (written by something else): delivered, reported,
		// never processed - and therefore never acknowledged
		for i, n := 0, 1+r.Intn(2); i < n && len(p.Tasks) > 0; i++ {
			t := r.Intn(len(p.Tasks))
			pos := r.Intn(len(p.Tasks[t]) + 1)
			op := Op{K: opInject, Q: 0, A: r.Intn(5)}
			p.Tasks[t] = append(p.Tasks[t][:pos:pos], append([]Op{op}, p.Tasks[t][pos:]...)...)
		}
	}
	return c, p
}

// deriveC11 lists the crash points to sweep for a finished base episode.
func deriveC11(ep *Episode, r *simrt.Rand, tier string) []Cfg {
	n := ep.W.cuts
	if n == 0 || ep.W.crashes > 0 || len(ep.Cfg.Queues) > 1 {
		return nil
	}
	all, sample := 150, 48
	if tier == "thorough" {
		all, sample = 400, 128
	}
	var ks []int
	if n <= all {
		for k := 1; k <= n; k++ {
			ks = append(ks, k)
		}
	} else {
		for i := 0; i < sample; i++ {
			ks = append(ks, 1+r.Intn(n))
		}
	}
	var out []Cfg
	for _, k := range ks {
		c := ep.Cfg
		c.CrashAt = k
		out = append(out, c)
	}
	return out
}

func hookC11(wd *World) {
	wd.runProgram()
	wd.epilogue = true
	for _, q := range wd.qs {
		if q.ad != nil {
			q.ad.faultsOn = false
		}
	}
	if wd.crashed {
		// what survives is the adapter's durable state
		var ad *simAdapter
		var qc QCfg
		for _, q := range wd.qs {
			if q.ad != nil {
				ad, qc = q.ad, q.cfg
			}
		}
		wd.crashHadState = len(ad.pending)+len(ad.unacked) > 0
		c := wd.rec.begin(opSettle, -1, -1)
		c.Arg = 90 // crash marker
		c.Val, c.Val2 = len(ad.pending), len(ad.unacked)
		wd.rec.end(c)
		ad.recoverAfterCrash()
		wd.sharedAd = ad
		qc.FEnq, qc.FDeq, qc.FAck, qc.FAckLost, qc.NDup = 0, 0, 0, 0, 0
		wd.spawnConsumer(1+simrt.Choose(3), qc)
		simrt.WaitQuiescent()
	} else {
		for _, s := range wd.subs {
			if s.Gated && !s.gate.IsOpen() {
				s.gate.Open()
			}
		}
		simrt.WaitQuiescent()
		// a running worker drains what refused dequeues left behind once it is prompted... it must not need prompting:
		// the dispatcher keeps looping while Len() > 0
	}
	c := wd.rec.begin(opSettle, -1, -1)
	c.Arg = 91 // final adapter snapshot
	for _, q := range wd.qs {
		if q.ad != nil {
			c.Val, c.Val2 = len(q.ad.pending), len(q.ad.unacked)
			c.Extra = []int{len(q.ad.acked), q.ad.FiredAck, q.ad.FiredDeq, q.ad.FiredEnq}
		}
	}
	wd.rec.end(c)
}

func judgeC11(j *judgeCtx) {
	wd := j.wd
	if j.ep.Res.Verdict != simrt.VDone {
		return
	}
	var ads []*simAdapter
	for _, q := range wd.qs {
		if q.ad != nil {
			ads = append(ads, q.ad)
		}
	}
	if len(ads) == 0 {
		return
	}
	inAdapter := func(n int) bool {
		for _, ad := range ads {
			for _, e := range ad.pending {
				if e.Sub == n {
					return true
				}
			}
			for _, u := range ad.unacked {
				if u.E.Sub == n {
					return true
				}
			}
		}
		return false
	}
	accepted := 0
	for _, s := range wd.subs {
		storedOK := false
		for _, ad := range ads {
			for _, c := range ad.calls {
				if c.Op == "enq" && c.Sub == s.N && c.OK {
					storedOK = true
				}
			}
		}
		reported := s.Submitted && s.AcceptKnown && s.Accepted && s.AddRet != 0
		for _, c := range j.callsOn(s.N, opAdd) {
			if c.Ret != 0 && c.OK && !storedOK {
				j.add("C11.d", c.Ret, "Add of %d returned true but the adapter never stored it: lost", s.N)
			}
		}
		if !storedOK {
			continue
		}
		accepted++
		done := len(s.Exits) > 0
		if !done && !inAdapter(s.N) {
			j.add("C11.d", j.final, "submission %d was stored by the adapter (accepted=%v), the worker function never completed for it in any incarnation, and it is neither pending nor unacknowledged in the adapter: lost", s.N, reported)
		}
		if wd.crashed && !done && inAdapter(s.N) {
			j.add("C11.d", j.final, "submission %d is still held by the adapter although the recovery worker is running and at rest: not drained without further prompting", s.N)
		}
		if !wd.crashed && !done && inAdapter(s.N) && wd.cancelled == 0 && j.finalState == lsR {
			j.add("C11.d", j.final, "submission %d is still pending in the adapter although the worker is running and at rest", s.N)
		}
	}
	// fault-free, no crash: everything acknowledged exactly once
	// (with undecodable entries in the backend: their deliveries stay unacknowledged, and
	// they may still be among the pending ones)
	firedAck, firedDeq, injected, unacked, acked, pending := 0, 0, 0, 0, 0, 0
	for _, ad := range ads {
		firedAck += ad.FiredAck
		firedDeq += ad.FiredDeq
		injected += ad.injected
		unacked += len(ad.unacked)
		acked += len(ad.acked)
		pending += len(ad.pending)
	}
	if !wd.crashed && firedAck == 0 && firedDeq == 0 && injected == 0 && j.finalState == lsR {
		if unacked != 0 {
			for _, ad := range ads {
				if len(ad.unacked) > 0 {
					j.add("C11.e", j.final, "%d deliveries are still unacknowledged at rest although nothing failed (first: %s, submission %d)", unacked, ad.unacked[0].ID, ad.unacked[0].E.Sub)
					break
				}
			}
		}
		if acked != accepted-pending {
			j.add("C11.e", j.final, "%d acknowledgements for %d processed entries", acked, accepted-pending)
		}
	}
	_ = fmt.Sprintf
}

// c11Pre — the one way to lose an accepted job that needs no crash: Add answers "accepted" for
// a payload it could not hand to the adapter (the encoding fails, a fault of the submission
// path).  Payloads are ints everywhere else in this check, so a slice of the budget runs the
// float64 pipeline of the C12 harness (NaN and infinities cannot be encoded) on the four
// acknowledging kinds, with concurrent producers, and looks at nothing but acceptance.
func c11Pre(p *Property, sum *Summary, fingers map[uint64]bool, deadline time.Time, budget time.Duration) bool {
	end := time.Now().Add(budget * 6 / 100)
	ti := 0
	for i, ty := range c12Types {
		if ty.name == "float64" {
			ti = i
		}
	}
	for i := 0; time.Now().Before(end); i++ {
		seed := c11uSeed(mix(*fSeed^0xc11, uint64(*fShard), uint64(i)), ti)
		ep, cw := c12Types[ti].run(seed, *fTier)
		sum.Episodes++
		sum.Steps += ep.Res.Steps
		sum.Verdicts[ep.Res.Verdict.String()]++
		sum.Extra["unencodable_payload_episodes"]++
		clause, msg := c11uCheck(cw)
		for _, a := range cw.adds {
			if !a.Encodable {
				sum.Faults["unencodable_payloads_submitted"]++
			}
		}
		if ep.LibSwitches > 0 {
			sum.NonTrivial++
			fingers[ep.Finger^seed] = true
		}
		if clause == "" {
			continue
		}
		_, cw2 := c12Types[ti].run(seed, *fTier)
		if c2, _ := c11uCheck(cw2); c2 != clause {
			sum.Infra = fmt.Sprintf("C11 unencodable-payload violation %s of seed %d did not reproduce (got %q)", clause, seed, c2)
			return true
		}
		rf := &ReplayFile{Property: p.ID, Clause: clause, Msg: msg, Seed: seed, Steps: ep.Res.Steps, Trace: []string{"float64 payloads on an acknowledging adapter (C12 pipeline), acceptance only", msg}}
		rf.Cfg.Prop = "C11U"
		path := fmt.Sprintf("%s/%s-%s-%d.json", *fRepDir, p.ID, strings.ReplaceAll(clause, ".", "_"), seed)
		writeJSON(path, rf)
		sum.Viols = append(sum.Viols, ViolOut{Clause: clause, Msg: msg, Seed: seed, Replay: path})
		return true
	}
	return false
}

// c11uSeed: the C12 harness derives the payload type from the seed.
func c11uSeed(base uint64, ti int) uint64 {
	n := uint64(len(c12Types))
	return base - base%n + uint64(ti)
}

func c11uCheck(cw *c12World) (string, string) {
	for _, a := range cw.adds {
		if !a.Encodable && a.OK && !a.Foreign {
			return "C11.d", fmt.Sprintf("Add (id %q) returned true for a payload that cannot be encoded: nothing was handed to the adapter, the accepted job is lost without any crash", a.ID)
		}
	}
	return "", ""
}
