package varmq

// Recorder: the event log of an episode (DESIGN §4.2).  Everything is stamped
// with the simulator's global step number; recording never yields and never
// draws from the PRNG.  Oracles (judge*.go) run over this log post hoc.

import (
	"fmt"

	"github.com/goptics/varmq/internal/simrt"
)

// Call is one client-visible API call: invoke/return interval plus results.
type Call struct {
	Task  int
	K     int // op kind (ops.go)
	Q     int
	Sub   int
	Batch int
	Arg   int
	Inv   uint64
	Ret   uint64 // 0: never returned
	Err   string // error text, "" for nil
	OK    bool
	Val   int
	Val2  int
	Str   string
	Phase int // 0 program, 1 epilogue
	W     int // consumer index
	AtRest bool
	Extra []int
}

type FnEv struct {
	Seq   uint64
	Sub   int
	Enter bool
	Task  int
	W     int
}

type QEv struct {
	Seq  uint64
	Q    int
	Sub  int
	K    int // 0 enq ok, 1 enq rejected, 2 deq, 3 purge
	W    int
	Task int
}

type genEv struct {
	Seq  uint64
	Task int
	ID   string
}

type Crash struct {
	Seq  uint64
	Task int
	Name string
	Msg  string
}

type Recorder struct {
	wd      *World
	calls   []*Call
	fns     []FnEv
	qevs    []QEv
	gens    []genEv
	purgers []int // tasks currently inside a Purge call
	inq     [][]int // per queue index (root world numbering): subs currently inside (wrapper/adapters)
	unknownEntries []string
	ackViol []Viol
	probes  [nProbes]int
}

// probes: "this rare condition was hit" counters (DESIGN §6)
const (
	pbClosedSkipped = iota // a closed job was dequeued (skipped by the dispatcher)
	pbRejected
	pbPurgeRemoved
	pbCancelOK
	pbCloseProcessing
	pbAckRefused
	pbDeqRefused
	pbEnqRefused
	pbTickFired
	pbPoolDrop
	pbBarrierWhilePending
	pbGatedQuiescence
	pbCrashInjected
	pbBadEntry
	pbLostRace
	nProbes
)

var probeNames = [nProbes]string{"closed_job_dequeued", "submission_rejected", "purge_removed_job", "cancel_succeeded", "close_on_processing", "ack_refused", "dequeue_refused", "enqueue_refused", "ticks_fired", "pool_cache_dropped", "barrier_returned_with_pending", "gated_quiescence", "crash_injected", "bad_entry_delivered", "dequeue_lost_race"}


// removeAt deletes element i without the copy builtin: runtime.slicecopy is
// race-annotated and the harness' shared slices are touched by many tasks.
func removeAt[T any](xs []T, i int) []T {
	out := make([]T, 0, len(xs))
	for k := range xs {
		if k != i {
			out = append(out, xs[k])
		}
	}
	return out
}

func newRecorder(wd *World) *Recorder { return &Recorder{wd: wd} }

func (r *Recorder) stamp() uint64 { return simrt.Stamp() }

func (r *Recorder) begin(k, q, sub int) *Call {
	c := &Call{Task: simrt.CurID(), K: k, Q: q, Sub: sub, Batch: -1, Inv: r.stamp()}
	if r.wd.epilogue {
		c.Phase = 1
	}
	r.calls = append(r.calls, c)
	return c
}

func (r *Recorder) end(c *Call) { c.Ret = r.stamp() }

func errText(err error) string {
	if err == nil {
		return ""
	}
	return err.Error()
}

func (r *Recorder) lifeBind(wd *World, inv uint64) {}

func (r *Recorder) qslot(q int) {
	for len(r.inq) <= q {
		r.inq = append(r.inq, nil)
	}
}

// enter is called by the worker function on entry; returns nil when the
// payload matches no submission (recorded as a violation by the judge).
func (r *World) enter(wd *World, v int, j Job[int]) *Sub {
	rec := r.rec
	seq := rec.stamp()
	if v < 0 || v >= len(r.subs) {
		rec.unknownEntries = append(rec.unknownEntries, fmt.Sprintf("seq %d: payload %d id %q", seq, v, j.ID()))
		return nil
	}
	s := r.subs[v]
	s.Entries = append(s.Entries, seq)
	s.EntryTask = append(s.EntryTask, simrt.CurID())
	s.Worker = append(s.Worker, wd.cidx)
	rec.fns = append(rec.fns, FnEv{Seq: seq, Sub: v, Enter: true, Task: simrt.CurID(), W: wd.cidx})
	wd.inflight++
	if wd.inflight > wd.maxInflight {
		wd.maxInflight = wd.inflight
	}
	if s.ad != nil {
		s.ad.markFn(s, false)
	}
	r.cut()
	// library calls last: they contain yield points
	s.IDSeen = j.ID()
	if sp, ok := j.(StatusProvider); ok {
		s.StatusInFn = sp.Status()
	}
	return s
}

func (r *World) exit(wd *World, s *Sub) {
	rec := r.rec
	seq := rec.stamp()
	s.Exits = append(s.Exits, seq)
	rec.fns = append(rec.fns, FnEv{Seq: seq, Sub: s.N, Enter: false, Task: simrt.CurID(), W: wd.cidx})
	wd.inflight--
	if s.ad != nil {
		s.ad.markFn(s, true)
	}
	r.cut()
}

func (r *Recorder) qEnq(wd *World, q, sub int, ok bool) {
	seq := r.stamp()
	k := 0
	if !ok {
		k = 1
		r.probes[pbRejected]++
	}
	r.qevs = append(r.qevs, QEv{Seq: seq, Q: q, Sub: sub, K: k, W: wd.cidx})
	if sub >= 0 && sub < len(r.wd.subs) {
		s := r.wd.subs[sub]
		s.AcceptKnown = true
		s.Accepted = ok
		if ok {
			s.Enq = seq
			r.qslot(q)
			r.inq[q] = append(r.inq[q], sub)
		}
	}
}

func (r *Recorder) qDeq(wd *World, q, sub int) {
	seq := r.stamp()
	// a dequeue issued from inside a Purge call removes the job like a purge does
	purging := false
	me := simrt.CurID()
	for _, t := range r.purgers {
		if t == me {
			purging = true
		}
	}
	k := 2
	if purging {
		k = 3
		r.probes[pbPurgeRemoved]++
	}
	r.qevs = append(r.qevs, QEv{Seq: seq, Q: q, Sub: sub, K: k, W: wd.cidx, Task: me})
	if sub >= 0 && sub < len(r.wd.subs) {
		s := r.wd.subs[sub]
		if purging {
			s.Purged = seq
			s.PurgeTask = me
		} else {
			s.Deq = seq
		}
	}
	r.qslot(q)
	for i, x := range r.inq[q] {
		if x == sub {
			r.inq[q] = removeAt(r.inq[q], i)
			break
		}
	}
}

func (r *Recorder) qPurged(wd *World, q int) {
	seq := r.stamp()
	r.qslot(q)
	for _, sub := range r.inq[q] {
		r.wd.subs[sub].Purged = seq
		r.wd.subs[sub].PurgeTask = simrt.CurID()
		r.qevs = append(r.qevs, QEv{Seq: seq, Q: q, Sub: sub, K: 3, W: wd.cidx})
		r.probes[pbPurgeRemoved]++
	}
	r.inq[q] = nil
}

// ---- adapter hooks

func (r *Recorder) adEnq(a *simAdapter, sub int) {
	if sub >= 0 && sub < len(r.wd.subs) {
		s := r.wd.subs[sub]
		s.AcceptKnown = true
		s.Accepted = true
		s.Enq = simrt.Step()
		s.ad = a
	}
}

func (r *Recorder) adEnqRefused(a *simAdapter, sub int) {
	r.probes[pbEnqRefused]++
	if sub >= 0 && sub < len(r.wd.subs) {
		s := r.wd.subs[sub]
		s.AcceptKnown = true
		s.Accepted = false
	}
}

func (r *Recorder) adDeq(a *simAdapter, sub int, id string) {
	if sub >= 0 && sub < len(r.wd.subs) {
		s := r.wd.subs[sub]
		s.Deq = simrt.Step()
		s.AckIDs = append(s.AckIDs, id)
	}
}

func (r *Recorder) adDeqNoAck(a *simAdapter, sub int) {
	r.ackViol = append(r.ackViol, Viol{Clause: "C11.a", Seq: simrt.Step(), Msg: fmt.Sprintf("plain Dequeue used on an acknowledging adapter (sub %d): the item left the adapter without an acknowledgement id", sub)})
}

func (r *Recorder) adPurged(a *simAdapter, sub int) {
	if sub >= 0 && sub < len(r.wd.subs) {
		r.wd.subs[sub].Purged = simrt.Step()
		r.wd.subs[sub].PurgeTask = simrt.CurID()
		r.probes[pbPurgeRemoved]++
	}
}

// adAck: an Acknowledge that did not match an outstanding delivery (or was refused by fault).
func (r *Recorder) adAck(a *simAdapter, id string, ok bool, refused bool) {
	if refused {
		r.probes[pbAckRefused]++
		// a refused ack of a valid id is still subject to the timing rules
		for _, u := range a.unacked {
			if u.ID == id {
				r.checkAckTiming(a, u, id)
				return
			}
		}
	}
	for _, x := range a.acked {
		if x == id {
			r.ackViol = append(r.ackViol, Viol{Clause: "C11.c", Seq: simrt.Step(), Msg: fmt.Sprintf("acknowledgement id %s acknowledged a second time", id)})
			return
		}
	}
	if !refused || true {
		known := false
		for _, u := range a.unacked {
			if u.ID == id {
				known = true
			}
		}
		if !known {
			r.ackViol = append(r.ackViol, Viol{Clause: "C11.a", Seq: simrt.Step(), Msg: fmt.Sprintf("Acknowledge(%q): the adapter never issued this id (or it belongs to a dead delivery)", id)})
		}
	}
}

func (r *Recorder) adAckKnown(a *simAdapter, u adUnacked, id string) {
	r.checkAckTiming(a, u, id)
}

func (r *Recorder) checkAckTiming(a *simAdapter, u adUnacked, id string) {
	seq := simrt.Step()
	if !u.Fn {
		r.ackViol = append(r.ackViol, Viol{Clause: "C11.b", Seq: seq, Msg: fmt.Sprintf("delivery %s (sub %d) acknowledged although it was never handed to the worker function", id, u.E.Sub)})
		return
	}
	if !u.FnDone {
		r.ackViol = append(r.ackViol, Viol{Clause: "C11.b", Seq: seq, Msg: fmt.Sprintf("delivery %s (sub %d) acknowledged before the worker function returned", id, u.E.Sub)})
	}
}

// markFn notes on the outstanding delivery of s that the worker function was
// entered / has returned for it (most recent delivery of that submission in the
// current incarnation).
func (a *simAdapter) markFn(s *Sub, done bool) {
	for i := len(a.unacked) - 1; i >= 0; i-- {
		u := &a.unacked[i]
		if u.E.Sub == s.N && u.Inc == a.inc {
			if done {
				u.FnDone = true
			} else {
				u.Fn = true
			}
			return
		}
	}
}
